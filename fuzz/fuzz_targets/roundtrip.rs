#![no_main]
//! C05 through libFuzzer: byte 0 selects the kind of value, the rest is the choice tape from which
//! a well-formed value is built (wire.rs); oracle = cfdp_verif::props::c05::roundtrip.
use libfuzzer_sys::fuzz_target;
use cfdp_verif::props::c05::{roundtrip, RtCase};

const KINDS: [&str; 8] = ["pdu", "pdu", "pdu", "user_op", "tlv", "fs_response", "report", "header"];

fuzz_target!(|data: &[u8]| {
    if data.is_empty() {
        return;
    }
    let case = RtCase { kind: KINDS[data[0] as usize % KINDS.len()].to_string(), flags: 0, ew: 1, sw: 1, tape: data[1..].to_vec() };
    if let Err((key, msg)) = roundtrip(&case) {
        eprintln!("C05-FUZZ-FAIL key={key}: {msg}");
        std::process::abort();
    }
});
