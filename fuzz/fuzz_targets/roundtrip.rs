#![no_main]
//! C05 through libFuzzer: byte 0 selects the kind of value, the rest is the choice tape from which
//! a well-formed value is built (wire.rs); oracle = cfdp_verif::props::c05::roundtrip.
use cfdp_verif::props::c05::{fuzz_case, roundtrip};
use libfuzzer_sys::fuzz_target;

fuzz_target!(|data: &[u8]| {
    if let Some(case) = fuzz_case(data) {
        if let Err((key, msg)) = roundtrip(&case) {
            eprintln!("C05-FUZZ-FAIL key={key}: {msg}");
            std::process::abort();
        }
    }
});
