#![no_main]
//! C15 through libFuzzer: see cfdp_verif::props::c15::fuzz_case for the input format; the oracle is
//! the same CrcPart the enumerations use (rejected, or equal to the original).
use cfdp_verif::common::Part;
use cfdp_verif::props::c15::{fuzz_case, CrcPart};
use libfuzzer_sys::fuzz_target;

fuzz_target!(|data: &[u8]| {
    if let Some(case) = fuzz_case(data) {
        if let Some(f) = CrcPart.run(&case).fail {
            eprintln!("C15-FUZZ-FAIL key={}: {}", f.key, f.msg);
            std::process::abort();
        }
    }
});
