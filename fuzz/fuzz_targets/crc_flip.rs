#![no_main]
//! C15 through libFuzzer: bytes 0-1 select a CRC-on corpus entry, every following pair of bytes a
//! bit position to flip (after the 4 fixed header octets); only error classes the CRC-16 is
//! designed to catch are judged: weight 1, 2, odd weight, or a burst of at most 16 bits.
use libfuzzer_sys::fuzz_target;
use cfdp_verif::common::Part;
use cfdp_verif::props::c15::{corpus, CrcCase, CrcPart};

fuzz_target!(|data: &[u8]| {
    if data.len() < 4 {
        return;
    }
    let c = corpus();
    let e = &c[((data[0] as usize) << 8 | data[1] as usize) % c.len()];
    let nbits = e.enc.len() as u32 * 8;
    let span = nbits - 32;
    let mut flips: Vec<u32> = data[2..].chunks(2).take(9).map(|p| {
        let r = (p[0] as u32) << 8 | *p.get(1).unwrap_or(&0) as u32;
        32 + ((r * span) >> 16)
    }).collect();
    flips.sort();
    flips.dedup();
    let w = flips.len();
    let burst = flips.last().unwrap() - flips[0] < 16;
    if !(w == 1 || w == 2 || w % 2 == 1 || burst) {
        return;
    }
    // pairs further apart than the CRC's period are outside the designed guarantees
    if w == 2 && flips[1] - flips[0] >= 32767 {
        return;
    }
    let case = CrcCase { entry: e.name.clone(), flips, class: "fuzz".into() };
    let out = CrcPart.run(&case);
    if let Some(f) = out.fail {
        eprintln!("C15-FUZZ-FAIL key={}: {}", f.key, f.msg);
        std::process::abort();
    }
});
