#![no_main]
//! C03 (and C01's identity clause) through libFuzzer: the input is a choice tape that builds one whole
//! daemon-level scenario (configuration, file, fault script, user requests, blackout); the real daemons
//! run it under the virtual clock and `cfdp_verif::props::c03::judge_chaos` decides. Coverage feedback
//! comes from the instrumented cfdp-daemon state machines.
use cfdp_verif::props::c03::{chaos_from_bytes, judge_chaos};
use libfuzzer_sys::fuzz_target;

fuzz_target!(|data: &[u8]| {
    if data.len() < 8 {
        return;
    }
    let case = chaos_from_bytes(data);
    if let Some(f) = judge_chaos(&case) {
        eprintln!("C03-FUZZ-FAIL key={}: {}", f.key, f.msg.lines().next().unwrap_or(""));
        std::process::abort();
    }
});
