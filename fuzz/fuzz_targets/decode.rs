#![no_main]
//! C06 through libFuzzer: the first byte selects one of the 14 public decoders, the rest is the
//! input. The semantic oracle (no panic, fuel, allocation bound, canonical re-decode) is
//! `cfdp_verif::props::c06::judge`; a failure aborts so that the harness can replay the input.
use cfdp_verif::props::c06::{fuzz_case, judge};
use libfuzzer_sys::fuzz_target;

fuzz_target!(|data: &[u8]| {
    if let Some(case) = fuzz_case(data) {
        if let Err((key, msg)) = judge(&case.target, &case.bytes) {
            eprintln!("C06-FUZZ-FAIL key={key}: {msg}");
            std::process::abort();
        }
    }
});
