#![no_main]
//! C06 through libFuzzer: the first byte selects one of the 14 public decoders, the rest is the
//! input. The semantic oracle (no panic, fuel, allocation bound, canonical re-decode) is
//! `cfdp_verif::props::c06::judge`; a failure aborts with its key so that the harness can replay it.
use libfuzzer_sys::fuzz_target;
use cfdp_verif::props::c06::{judge, TARGETS};

fuzz_target!(|data: &[u8]| {
    if data.is_empty() {
        return;
    }
    let target = TARGETS[data[0] as usize % TARGETS.len()];
    if let Err((key, msg)) = judge(target, &data[1..]) {
        eprintln!("C06-FUZZ-FAIL key={key} target={target}: {msg}");
        std::process::abort();
    }
});
