#!/usr/bin/env python3
"""Regenerates /verif/MANIFEST.json from the table below (single source of truth for the claims)."""
import json, os
HERE = os.path.dirname(os.path.dirname(os.path.abspath(__file__)))

# id -> (engine, technique, level text, level note, design ref)
CHECKS = {
 "C09": ("E1-pure",
         "bounded-exhaustive enumeration + proptest sequences against a bit-set / interval-union reference model",
         "Every sequence of <=3 segments over 8 (quick) / 10 (thorough, plus <=4 over 6) byte positions is enumerated and after each "
         "step merge's return value, the running sum, end(), len(), is_complete(n) for every n>=end and gaps(s,e) for every window are "
         "compared with a bit-set style reference; long random sequences (<=200 segments, offsets up to 2^64-1) are compared with a naive "
         "interval union. Exhaustive within the stated bounds, sampled beyond them.",
         "Trusts the harness-side reference model (40 lines). is_complete(n) is judged only for n >= end of held data. Needs hook H2 (re-export of Segments).",
         "DESIGN.md §5 C09"),
}
CHECKS["C14"] = ("E1-pure",
  "structured sweep + proptest against a reference implementation, differential across reader kinds, single-byte metamorphic relation",
  "Every length 0..130 (thorough 0..260) with ramp/0xFF/random content and a single non-zero byte at every position, lengths around the 8 KiB/16 KiB/64 KiB "
  "buffer boundaries, through a Cursor, a real File and a harness Read+Seek that returns short reads from generated schedules (1..9, 8191, 8192, 8193, mixed); "
  "each result is compared with an independent CCSDS reference, with the Cursor reader, and with the result after changing one byte. Sampled beyond the sweep by proptest.",
  "Trusts the 10-line reference checksum in the harness. Readers obey the std::io::Read/Seek contracts.",
  "DESIGN.md §5 C14")
CHECKS["C12"] = ("E1-pure",
  "bounded-exhaustive path alphabet x every filestore operation; lexical containment oracle + before/after snapshot of a sentinel tree",
  "Every name made of a prefix in {none,'/','//','./',<root>,<root>/,<root>X,<parent>} and up to 4 (quick) / 5 (thorough) components over {a,b,'.','..',''} is "
  "combined with every public filestore operation and every process_request action; get_native_path must resolve (without clamping) inside the root, and a recursive "
  "snapshot of everything outside the root (sentinel files, a sibling whose name extends the root's) must be unchanged, and no read may return sentinel data. "
  "Exhaustive within the alphabet and length bound; longer names sampled by proptest.",
  "Lexical containment only (no symlinks); absolute root. Trusts the harness's own lexical resolver and snapshot.",
  "DESIGN.md §5 C12")
CHECKS["C05"] = ("E1-pure",
  "proptest over choice-tape-built values of every codec type, exhaustive discrete header fields; round-trip (inverse) and announced-length oracles",
  "Well-formed values of every public codec type (PDU with every directive and both file-data forms, all 2^6 header flag combinations x 4x4 id widths enumerated, "
  "every metadata TLV, every filestore action x status, all 26 user operations incl. the private-field types via a layout writer, status reports) are built from "
  "generated choice tapes inside the wire format's limits; decode(encode(x)) == x, encode(x).len() == encoded_len(x) and the length field on the wire equals the bytes "
  "that follow the header. Sampled (hundreds of thousands of values per run), exhaustive only in the discrete header fields.",
  "VariableID::encoded_len() is taken as the value width (the code base's convention); PDU::encoded_len() is compared modulo the 2 CRC octets; total PDU size <= 65535.",
  "DESIGN.md §5 C05")
CHECKS["C06"] = ("E1-pure",
  "exhaustive short strings + every truncation / single-byte mutation / forced field of valid encodings + proptest random bytes; no-panic, fuel, allocation-bound and canonical-re-decode oracles",
  "For 14 public decoders: all byte strings of length <= 2, every truncation and 6 single-byte mutations at every position of ~1500 valid encodings, length/id-length/first "
  "octets forced to boundary values, and random strings; each decode runs under catch_unwind (overflow checks on), a read-call fuel of 10^6, and a thread-local heap "
  "accounting allocator (peak <= 1 MiB); every accepted value must re-decode to itself after re-encoding with the length recomputed. Exhaustive for the stated mutation classes, sampled otherwise.",
  "Wall-clock hangs are 'inconclusive' (watchdog, exit 2). Trusts the harness's counting allocator and reader.",
  "DESIGN.md §5 C06")
CHECKS["C15"] = ("E1-pure",
  "exhaustive single-bit / near-pair / short-burst flips over a CRC-on corpus + constructive zero-syndrome patterns (meet-in-the-middle on the linear CRC) + proptest; oracle = rejected or equal to the original",
  "Over valid CRC-on encodings of every PDU type (both file-size flags, 4 id-width combinations): every single-bit flip, every pair within 64 bits, every burst pattern up to "
  "length 8 (5 on part of the corpus; thorough 12/16) at every position after octet 4, sampled far pairs / odd weights / long bursts, and constructed odd-weight patterns made of a "
  "zero-syndrome 4-bit error plus a spare-bit flip. Each corrupted datagram must be rejected or decode to the original; the unaltered one must be accepted and carry the CCITT CRC.",
  "Flips confined to bits after the 4 fixed header octets. Trusts the harness's own CRC-16 implementation for the constructive class.",
  "DESIGN.md §5 C15")
CHECKS["C16"] = ("E5-udp",
  "exhaustive truncation lengths over a PDU corpus through a real UdpTransport on loopback + proptest datagram sequences; differential against decoding the datagram's own bytes",
  "A fresh UdpTransport (real socket on 127.0.0.1) receives a long valid datagram followed by every truncation length 0..len of every corpus datagram (all PDU types, CRC on/off, "
  "both file-size flags, 4 id-width combinations), and random sequences of 2-5 datagrams; each receive() result must equal PDU::decode of that datagram's own bytes. "
  "Exhaustive over the corpus x truncation lengths x 3 predecessors; sequences sampled.",
  "Loopback delivery in order and without loss (a 5 s timeout is reported as inconclusive, exit 2).",
  "DESIGN.md §5 C16")
CHECKS["C01"] = ("E2-sim + E3-puppet",
  "proptest scenarios on the real daemons over a fault-injecting in-memory link (virtual clock); identity oracle on every success claim",
  "Two real daemons exchange one file per scenario under generated configuration (segment size, both modes, closure, checksum type, CRC, NAK procedure, limits, timeouts, id widths), "
  "adversarial content (zero runs, checksum-neutral word pairs, zero tail), link timing, scheduler seed and up to 5 faults (drop, duplicate, delay, bit corruption with CRC on); "
  "for every (NoError, Complete, Retained) Finished indication at either user the destination file, read at that moment and at the end, must equal the source. "
  "Plus exhaustive families: one lost datagram at every position x weak-checksum contents x both modes; one flipped bit in the file data of each segment on a link without CRC (modular checksum); and a puppet-sender family (E3) in which a File Data PDU beyond the announced file size arrives before the EOF, between EOF and the rest of the data, or last; and a family in which the source file is rewritten in place after the k-th datagram of the sender (the statement compares with the source as it was when the transfer was requested). Sampled search: tens of thousands to millions of scenarios per run.",
  "Single-threaded deterministic runtime (message orderings, not preemption). Trusts the harness link and the content generators.",
  "DESIGN.md §5 C01")
CHECKS["C02"] = ("E2-sim",
  "fault-placement enumeration over the baseline exchange of the real daemons (virtual clock) + proptest pairs; success oracle",
  "Acknowledged mode; for 6 sizes x 6 NAK procedures x CRC x closure every placement of one fault (drop, 2 duplicates, 2 delays) over every datagram ordinal of either direction is executed "
  "(exhaustive), all pairs of faults in thorough (a rotating third of the grid) and sampled pairs in quick; plus, per configuration with at least two segments, a five-loss script in which no PDU is lost three times in a row (two first-pass segments, one retransmission, the next two NAKs; ordinals learned adaptively), so that recovery takes several NAK rounds; destination == source, receiver's first and sender's Finished indication are "
  "(NoError, Complete, Retained), both transactions gone at the end.",
  "F < limit=3, Ti > Ta,Tn. Placement enumeration is exhaustive only for F=1 (and the stated subset for F=2); the five-loss script is one pattern per configuration.",
  "DESIGN.md §5 C02")
CHECKS["C03"] = ("E2-sim",
  "exhaustive blackout-from-every-ordinal and kind-selective silence over a configuration grid + proptest combinations and a chaos family (user requests + faults), the latter also coverage-guided by libFuzzer over a scenario choice tape in the thorough tier; bounded-time oracle on the virtual clock with a liveness probe, a busy-loop detector hook and a post-run health check",
  "For both modes x closure x NAK procedures x handler sets x sizes: blackout of either/both directions from every datagram ordinal, a peer that never passes one PDU kind (or a pair), "
  "sampled blackout+fault+cancel combinations, and a chaos family (general scenario generator + up to 3 cancel / suspend+resume / prompt / report requests + blackout; thorough: also the sim_chaos libFuzzer target, 60k scenarios). Every transaction instance seen at an entity must stop answering Report primitives by (last stimulus + B), "
  "B = L*(Ti+Tn+2Ta)+NAK delay+exchange+5 s, no PDU flood, and afterwards each daemon must complete a fresh Put on the healed link.",
  "Liveness is decided as bounded-time safety with a generous bound under virtual time; handlers ignore/suspend excluded as the statement says.",
  "DESIGN.md §5 C03")
CHECKS["C18"] = ("E2-sim",
  "exhaustive single and double loss over the unacknowledged exchange of the real daemons + proptest scenarios; trace oracle on PDU kinds, tiling, end points, closure relay and delivery code against an exact delivered-bytes model",
  "Unacknowledged mode, closure off/on x checksum type x 6 (size, content) pairs: every single loss and every pair of losses over all datagram ordinals of both directions (exhaustive), plus "
  "sampled scenarios with duplicates, delays and corruption. Checked: the receiver emits nothing (only Finished with closure); the sender emits Metadata, the file tiled once in order, EOF; "
  "without closure both end on EOF; with closure a receiver that knows closure was requested sends a Finished PDU whatever outcome it reaches (delivery finalised or fault handled by cancelling), the PDU carries that outcome, the sender ends only when it arrives (or within its limits) and relays condition, delivery code and "
  "file status; a receiver missing metadata or any byte never reports Complete.",
  "With closure the sender may repeat its EOF while waiting. Exhaustive for <= 2 losses on the listed configurations only.",
  "DESIGN.md §5 C18")
CHECKS["C10"] = ("E2-sim",
  "cancel-at-every-ordinal enumeration x adaptive loss of each post-cancel datagram x blackout variants on the real daemons + proptest; trace oracle on termination, reported condition and the destination file",
  "Both modes x closure x NAK procedure x sizes: a user Cancel at the sender or the receiver when the link sees datagram k of either direction, for every k of the baseline exchange (exhaustive), "
  "each combined with the loss of every single datagram emitted after the cancel and with blackouts after the cancel; plus sampled cancel+random-fault scenarios. A cancelled sender puts no Metadata/FileData on the link after the request; once the cancel has taken effect at the receiver that transaction does not go on to deliver the file; the cancelling side must be gone "
  "within the bound, the peer too; both users see CancelReceived when nothing was lost, delivered or faulted before - or when one handshake PDU was lost and the limits permit its retransmission; the destination exists only after a reported complete delivery and then equals the source.",
  "The 'both report the cancel condition' clause is judged only on loss-free handshakes without a prior Finished/Fault indication. Unack-mode retention of an incomplete file by an EOF(NoError) is out of scope.",
  "DESIGN.md §5 C10")
CHECKS["C19"] = ("E2-sim",
  "suspend-at-every-ordinal enumeration x suspension lengths x single loss on the real daemons (virtual clock); trace oracle on the silence window, timer faults and completion after resume",
  "A user Suspend at the sender or receiver when the link sees datagram k of either direction (every k, delay 0/1 ms), Resume 0.5 s .. 100 s after the Suspended indication. Family 'silence' "
  "(suspended side: 1 s timers, peer: 400 s) checks that no Metadata/FileData/EOF/NAK/Finished leaves the suspended entity and no limit fault is declared between the indication (+pipeline slack) "
  "and the resume request; family 'completion' (3 s timers, suspension up to 6 s, one lost datagram at every ordinal in acknowledged mode) checks that the transfer then completes exactly as "
  "C02 demands; any later limit fault must have L*min(T) of un-suspended time behind it. Every suspension of the silence family also comes with a second Suspend request in its middle (one Resume must end it) and, for a suspended acknowledged-mode receiver, with a Prompt(NAK) from the peer's user. Family 'sampled' (proptest): the general scenario generator (any configuration, up to 3 faults) with a suspension of 0..8 s at either entity, judged for silence and timer faults only.",
  "ACK/keep-alive during suspension tolerated; two PDUs already in the transport pipeline may still appear. Exhaustive over ordinals of the listed configurations only.",
  "DESIGN.md §5 C19")
CHECKS["C08"] = ("E3-puppet",
  "puppet sender (harness-fabricated PDUs at chosen virtual times) vs the real receiving daemon; exhaustive withheld-subset x arrival-order x NAK-procedure enumeration + sampled variations; oracle = exact model of what was delivered",
  "For files of 0..5 (thorough 6) segments every subset of withheld metadata/segments x 5 arrival orders (incl. EOF first, data after EOF) x 4 NAK procedures is delivered by a puppet to a real receiver "
  "(segment size 16: one request per NAK PDU), a family in which the delivery that opens a second gap falls into the millisecond in which the NAK round for the first gap expires (task polled late, hook H5: either order), plus sampled segment sizes, large file-size flag, CRC, prompts, pauses longer than the NAK timeout and the puppet's answers (silent, all, half, duplicate EOF). Every NAK must be well-formed "
  "(non-empty ranges or the 0-0 marker only while metadata is missing, inside scope and file, fitting the PDU size) and sound (never a held byte); in every quiet interval after EOF the union of the "
  "requests must equal the missing set (plus metadata), a NAK must come within the delay after EOF and again each NAK period; deferred: nothing unsolicited before EOF; immediate: a new gap is requested "
  "at once / after the delay if it persists; the receiver never verifies or finalizes while something is missing.",
  "Timing tolerance 14 ms + 6 tau; the state known to the receiver is taken 3 tau + 3 ms before a NAK reaches the link. Exhaustive only for segment size 16, small file-size flag.",
  "DESIGN.md §5 C08")
CHECKS["C07"] = ("E3-puppet",
  "real sending daemon vs a puppet receiver injecting NAKs of any shape at any time (seeded generation + a structured range family); reference model = source bytes + requested byte sets",
  "Every datagram the sender emits is checked: transaction ids/mode/direction/CRC flag/version, wire length field == payload, file data == source[offset..], length <= segment, inside the file; "
  "the first pass exists as an in-order tiling before the EOF; every non-tile PDU lies inside a range requested before it; per byte, transmissions = 1 (first pass) + between 1 and the number of "
  "requested ranges containing it (requests delivered in time); the 0-0 marker is answered by a Metadata PDU identical to the first, never more often than asked; Metadata and EOF state the true names, "
  "size, checksum type, closure flag and the reference checksum. NAK shapes: plain, duplicated, overlapping, empty, inverted, straddling / beyond EOF, longer than a segment, during the first pass or after EOF.",
  "Zero-length file-data PDUs are tallied, not judged. Requests arriving less than ~60 ms before the puppet's Finished are not required to be answered. Sampled (tens of thousands of scripts), not exhaustive.",
  "DESIGN.md §5 C07")
CHECKS["C20"] = ("E2-sim",
  "proptest scenarios provoking every progress report (keep-alive prompts, suspend/resume, blackouts -> faults/abandon) on the real daemons; oracle = delivered-distinct-bytes / emitted-offset model with a window rule",
  "Acknowledged-mode scenarios from the general generator (files of >= 3 segments, duplicates, drops, retransmissions) with Prompt(keep-alive) at any datagram ordinal, optional suspend/resume at either side and "
  "optional blackouts that lead to limit faults and abandon, in 3 of 10 cases a user cancel in the middle of the first pass; plus a puppet-sender family with arbitrary overlapping / duplicated / unaligned segments each followed by a keep-alive prompt. Every figure in a KeepAlive PDU, Fault, Abandon or Resumed indication must equal the number of distinct bytes delivered to the receiver "
  "(resp. the highest offset+length the sender had put out) at some point of a small window around its emission, never exceed the file size and never decrease.",
  "Window: events up to 2 ms earlier are surely counted, what may be in the 2-PDU transport pipeline (2 tau + 2 ms) may be; a delivered segment counts from the moment the receiver's FileSegmentRecv indication shows it was processed. Sampled.",
  "DESIGN.md §5 C20")
CHECKS["C17"] = ("E3-puppet",
  "grid enumeration of timeout x limit x handler x answers-before-expiry over 12 fault families with puppet peers (virtual clock); timestamp arithmetic on the trace",
  "Puppet peers make each limit fault happen in isolation: sender ack limit, sender inactivity (with keep-alives or NAKs shortly before an expiry), receiver ack limit, receiver NAK limit (with partial "
  "retransmissions shortly before the next round), receiver inactivity (with late segments 1 ms before an expiry), checksum failure, file-size error, and sender/receiver ack limit with a user suspension of 0.4..5.1 periods while waiting (suspended time must not count, every expiry still retransmits), and sender ack / receiver ack / receiver NAK limit handled by Suspend followed by a user Resume (the fault may be declared again only after another L expirations with their retransmissions); timeouts 1..3 s, limits 1..4, handlers absent/cancel/"
  "suspend/ignore/abandon, deferred/immediate NAK (exhaustive grid, repeated under other link timings and with the transaction tasks polled late, hook H5). The first fault must have the expected condition, come L*T after the event that restarted the count (never earlier, not later), "
  "with exactly L transmissions of EOF/Finished (resp. L NAK rounds) before it, and the configured action must follow.",
  "Tolerance 3 tau + 6 ms. With Ignore only the absence of cancel/abandon/suspend/termination is required.",
  "DESIGN.md §5 C17")
CHECKS["C13"] = ("E1-pure + E2-sim",
  "model-based testing: bounded-exhaustive and random request histories against an in-memory filesystem model; proptest transactions carrying request lists on the real daemons under faults",
  "Core: every sequence of <= 2 requests (9 actions x 7 x 7 names over {f1,f2,d1,d1/f,d2,nx,nx/f}) from 4 initial states (778k histories, exhaustive; thorough adds length 3) and random sequences up to 30: "
  "after every request the returned status and the full recursive snapshot of the directory equal the model (failed requests change nothing). Transactions: Puts with 0..4 requests, with/without a file, both modes, "
  "an optional fault and an optional forced checksum failure: the receiver's filestore must equal the model with the requests applied once, in order, iff the delivery succeeded; the response list (NotPerformed after "
  "the first failure) must be identical in the receiver's Finished indication, every Finished PDU and the sender's Finished indication.",
  "The model encodes the statuses the repository's tests pin. Names stay inside the root (C12's subject).",
  "DESIGN.md §5 C13")
CHECKS["C04"] = ("E3-puppet + E2-sim",
  "exhaustive re-delivery of every previously sent PDU (singles and ordered pairs) by a puppet sender after the receiver's first success, and exhaustive handshake-loss combinations between two real daemons; invariant oracle after the first success",
  "Puppet family: file transfers and requests-only transactions x Modular/Null checksum x 6 request lists with non-idempotent requests x every single and every ordered pair of late PDUs (Metadata, EOF, both prompts, "
  "each data segment) delivered while the receiver waits for the ACK of Finished x ACK sent/never x 2 NAK procedures, and the same singles and pairs against a receiver in unacknowledged mode with closure requested (finalised on the EOF, waiting for the ACK of its Finished PDU); sampled (one in four in unacknowledged mode with closure): 1..5 stragglers at arbitrary moments of that wait (incl. the millisecond of completion, of a Finished retransmission, of the ACK). Real family: ACK(EOF), Finished, ACK(Finished) each lost 0/1/2 times (27 combinations) x sizes x checksum x "
  "request lists. Between the first success and the end of that transaction: no checksum/size fault indication or Finished PDU, no second success report, identical filestore responses in every Finished PDU, destination == source and the receiver's filestore == "
  "the model with the requests applied exactly once; a sender reports success only after its receiver did.",
  "Side effects are compared at the end of the run with the C13 model. Late PDUs arriving after the transaction has ended start a new transaction (C11).",
  "DESIGN.md §5 C04")
CHECKS["C11"] = ("E2-sim",
  "seeded generation of multi-daemon, multi-transaction scenarios with random link faults, injected stray PDUs and replays on the real daemons; per-transaction identity oracle + routing + termination + health check",
  "2-3 real daemons, 2..24 overlapping Puts in any direction and mode with per-transaction tagged contents and destinations, eight families (loss-free; + strays; one lost datagram per directed link, with and without strays, where acknowledged Puts must still succeed; lossy + strays; strays + replay/reflection of an ended "
  "transaction's PDUs; a burst of 120..320 datagrams handed to one daemon in one instant with the receive transaction polled late, so that its mailbox runs full; the complete to-receiver exchange of Put #0 delivered again, in order, 5..1400 ms after its receive transaction ended - mostly while the routing table still holds the ended transaction's channel - which exactly one new receive transaction must take and deliver again); strays include responses that carry the sequence number of a live send transaction but a foreign source entity; in half of the scenarios all daemons number their transactions from the same value; one Put in five is fire-and-forget (the user drops the channel on which the id is answered). Put ids must be pairwise distinct; every success claim must show that transaction's own content at its own destination (cross-wiring is recognised by the tag); every indication must name a "
  "transaction that exists at that entity; loss-free: every Put succeeds despite the strays; always: every transaction, including those started by strays, is gone at the end, no daemon stopped, and every daemon "
  "completes a fresh Put afterwards.",
  "Single-threaded deterministic scheduler (message orderings, seeded select! branches), not preemptive interleavings. Sampled: thousands of scenarios per run.",
  "DESIGN.md §5 C11")
NOT_YET = {}

def main():
    props = [json.loads(l) for l in open(os.path.join(HERE, "properties.jsonl"))]
    checks = []
    na = []
    for p in props:
        pid = p["id"]
        if pid in CHECKS:
            eng, tech, text, note, ref = CHECKS[pid]
            checks.append({
                "property_id": pid,
                "quick_cmd": f"./check {pid} quick",
                "thorough_cmd": f"./check {pid} thorough",
                "evidence_file": f"/verif/evidence/{pid}.json",
                "replay_cmd_template": f"./check {pid} --replay {{path}}",
                "engine": eng,
                "level_claimed": {"category": "exploration", "text": text, "design_ref": ref},
                "level_note": note,
                "technique": tech,
            })
        else:
            na.append({"property_id": pid, "reason": NOT_YET.get(pid, "check not built yet in this round (planned: see DESIGN.md §5); not claimed until it runs")})
    hooks_commits = [l.strip() for l in open(os.path.join(HERE, "hooks_commits.txt"))] if os.path.exists(os.path.join(HERE, "hooks_commits.txt")) else []
    m = {
        "version": 1,
        "setup_cmd": "./check --build",
        "hooks": {
            "guard": "--cfg cfdp_verif",
            "enable": "RUSTFLAGS='--cfg cfdp_verif --cfg tokio_unstable' via /verif/harness/.cargo/config.toml (the harness crate has path dependencies on /repo/cfdp-core and /repo/cfdp-daemon, so every build compiles /repo's working tree with the guard on)",
            "baseline_off_cmd": "cd /repo && cargo nextest run --workspace --no-fail-fast --test-threads 8 --offline || cargo test --workspace --no-fail-fast --offline",
            "source_commits": hooks_commits,
            "add_only": True,
        },
        "engines": [
            {"name": "E1-pure", "path": "/verif/harness/src/props", "serves_properties": ["C05","C06","C09","C12","C13","C14","C15"], "kind_free_text": "proptest strategies + bounded-exhaustive enumerators over public pure functions, oracle = reference model / inverse / metamorphic relation"},
            {"name": "E2-sim", "path": "/verif/harness/src/sim", "serves_properties": ["C01","C02","C03","C04","C07","C08","C10","C11","C13","C17","C18","C19","C20"], "kind_free_text": "the real Daemon(s) on a paused-clock single-thread tokio runtime over an in-memory fault-injecting link; scenario = config x content x fault script x user commands x injected PDUs; oracle = invariants over the recorded trace"},
            {"name": "E4-fuzz", "path": "/verif/fuzz", "serves_properties": ["C03","C05","C06","C15"], "kind_free_text": "cargo-fuzz/libFuzzer targets (decode, roundtrip, crc_flip, sim_chaos) with the semantic oracle inside the target; run by the thorough tier with fixed -runs and -seed=VERIF_SEED"},
            {"name": "E5-udp", "path": "/verif/harness/src/props/c16.rs", "serves_properties": ["C16"], "kind_free_text": "real UdpTransport on loopback, differential against decoding the datagram's own bytes"},
        ],
        "checks": checks,
        "not_applicable": na,
        "notes": "All checks are generated-input search against explicit oracles (property-based testing / fuzzing). See DESIGN.md. Known findings: /verif/known_findings.json.",
    }
    json.dump(m, open(os.path.join(HERE, "MANIFEST.json"), "w"), indent=1)
    print("checks:", [c["property_id"] for c in checks], "not claimed:", [x["property_id"] for x in na])

if __name__ == "__main__":
    main()
