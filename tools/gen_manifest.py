#!/usr/bin/env python3
"""Regenerates /verif/MANIFEST.json from the table below (single source of truth for the claims)."""
import json, os
HERE = os.path.dirname(os.path.dirname(os.path.abspath(__file__)))

# id -> (engine, technique, level text, level note, design ref)
CHECKS = {
 "C09": ("E1-pure",
         "bounded-exhaustive enumeration + proptest sequences against a bit-set / interval-union reference model",
         "Every sequence of <=3 segments over 8 (quick) / 10 (thorough, plus <=4 over 6) byte positions is enumerated and after each "
         "step merge's return value, the running sum, end(), len(), is_complete(n) for every n>=end and gaps(s,e) for every window are "
         "compared with a bit-set style reference; long random sequences (<=200 segments, offsets up to 2^64-1) are compared with a naive "
         "interval union. Exhaustive within the stated bounds, sampled beyond them.",
         "Trusts the harness-side reference model (40 lines). is_complete(n) is judged only for n >= end of held data. Needs hook H2 (re-export of Segments).",
         "DESIGN.md §5 C09"),
}
CHECKS["C14"] = ("E1-pure",
  "structured sweep + proptest against a reference implementation, differential across reader kinds, single-byte metamorphic relation",
  "Every length 0..130 (thorough 0..260) with ramp/0xFF/random content and a single non-zero byte at every position, lengths around the 8 KiB/16 KiB/64 KiB "
  "buffer boundaries, through a Cursor, a real File and a harness Read+Seek that returns short reads from generated schedules (1..9, 8191, 8192, 8193, mixed); "
  "each result is compared with an independent CCSDS reference, with the Cursor reader, and with the result after changing one byte. Sampled beyond the sweep by proptest.",
  "Trusts the 10-line reference checksum in the harness. Readers obey the std::io::Read/Seek contracts.",
  "DESIGN.md §5 C14")
CHECKS["C12"] = ("E1-pure",
  "bounded-exhaustive path alphabet x every filestore operation; lexical containment oracle + before/after snapshot of a sentinel tree",
  "Every name made of a prefix in {none,'/','//','./',<root>,<root>/,<root>X,<parent>} and up to 4 (quick) / 5 (thorough) components over {a,b,'.','..',''} is "
  "combined with every public filestore operation and every process_request action; get_native_path must resolve (without clamping) inside the root, and a recursive "
  "snapshot of everything outside the root (sentinel files, a sibling whose name extends the root's) must be unchanged, and no read may return sentinel data. "
  "Exhaustive within the alphabet and length bound; longer names sampled by proptest.",
  "Lexical containment only (no symlinks); absolute root. Trusts the harness's own lexical resolver and snapshot.",
  "DESIGN.md §5 C12")
NOT_YET = {}

def main():
    props = [json.loads(l) for l in open(os.path.join(HERE, "properties.jsonl"))]
    checks = []
    na = []
    for p in props:
        pid = p["id"]
        if pid in CHECKS:
            eng, tech, text, note, ref = CHECKS[pid]
            checks.append({
                "property_id": pid,
                "quick_cmd": f"./check {pid} quick",
                "thorough_cmd": f"./check {pid} thorough",
                "evidence_file": f"/verif/evidence/{pid}.json",
                "replay_cmd_template": f"./check {pid} --replay {{path}}",
                "engine": eng,
                "level_claimed": {"category": "exploration", "text": text, "design_ref": ref},
                "level_note": note,
                "technique": tech,
            })
        else:
            na.append({"property_id": pid, "reason": NOT_YET.get(pid, "check not built yet in this round (planned: see DESIGN.md §5); not claimed until it runs")})
    hooks_commits = [l.strip() for l in open(os.path.join(HERE, "hooks_commits.txt"))] if os.path.exists(os.path.join(HERE, "hooks_commits.txt")) else []
    m = {
        "version": 1,
        "setup_cmd": "./check --build",
        "hooks": {
            "guard": "--cfg cfdp_verif",
            "enable": "RUSTFLAGS='--cfg cfdp_verif --cfg tokio_unstable' via /verif/harness/.cargo/config.toml (the harness crate has path dependencies on /repo/cfdp-core and /repo/cfdp-daemon, so every build compiles /repo's working tree with the guard on)",
            "baseline_off_cmd": "cd /repo && cargo nextest run --workspace --no-fail-fast --test-threads 8 --offline || cargo test --workspace --no-fail-fast --offline",
            "source_commits": hooks_commits,
            "add_only": True,
        },
        "engines": [
            {"name": "E1-pure", "path": "/verif/harness/src/props", "serves_properties": ["C05","C06","C09","C12","C13","C14","C15"], "kind_free_text": "proptest strategies + bounded-exhaustive enumerators over public pure functions, oracle = reference model / inverse / metamorphic relation"},
            {"name": "E2-sim", "path": "/verif/harness/src/sim", "serves_properties": ["C01","C02","C03","C04","C07","C08","C10","C11","C13","C17","C18","C19","C20"], "kind_free_text": "the real Daemon(s) on a paused-clock single-thread tokio runtime over an in-memory fault-injecting link; scenario = config x content x fault script x user commands x injected PDUs; oracle = invariants over the recorded trace"},
            {"name": "E4-fuzz", "path": "/verif/fuzz", "serves_properties": ["C05","C06","C15"], "kind_free_text": "cargo-fuzz/libFuzzer targets with the semantic oracle inside the target"},
            {"name": "E5-udp", "path": "/verif/harness/src/props/c16.rs", "serves_properties": ["C16"], "kind_free_text": "real UdpTransport on loopback, differential against decoding the datagram's own bytes"},
        ],
        "checks": checks,
        "not_applicable": na,
        "notes": "All checks are generated-input search against explicit oracles (property-based testing / fuzzing). See DESIGN.md. Known findings: /verif/known_findings.json.",
    }
    json.dump(m, open(os.path.join(HERE, "MANIFEST.json"), "w"), indent=1)
    print("checks:", [c["property_id"] for c in checks], "not claimed:", [x["property_id"] for x in na])

if __name__ == "__main__":
    main()
