#!/usr/bin/env python3
"""try_seed.py <worktree> <seed-name> <PROPERTY-ID> [more ids...]

1. copies <worktree>/_seeded/* to /verif/seeded/<seed-name>/
2. confirms the demonstration in the worktree: fails with the patch, passes without it
3. applies the patch to /repo, runs `./check <ID> quick` for each id, reverts /repo
4. records everything in meta.json
The worktree is left in place (remove it with git -C /repo worktree remove --force <dir>)."""
import json, os, shutil, subprocess, sys, time

wt, name, ids = sys.argv[1], sys.argv[2], sys.argv[3:]
dst = f"/verif/seeded/{name}"
os.makedirs(dst, exist_ok=True)
for f in os.listdir(f"{wt}/_seeded"):
    shutil.copy(f"{wt}/_seeded/{f}", dst)
meta = json.load(open(f"{dst}/meta.json"))

def sh(cmd, cwd=None, timeout=3600):
    p = subprocess.run(cmd, shell=True, cwd=cwd, stdout=subprocess.PIPE, stderr=subprocess.STDOUT, text=True, timeout=timeout)
    return p.returncode, p.stdout

confirm = {}
demo = meta.get("demo_cmd")
skip_demo = os.environ.get("SKIP_DEMO") == "1"
if demo and not skip_demo:
    # state: patch + demo applied
    rc_with, out_with = sh(demo, cwd=wt)
    sh("git apply -R _seeded/patch.diff", cwd=wt)
    rc_without, out_without = sh(demo, cwd=wt)
    sh("git apply _seeded/patch.diff", cwd=wt)
    confirm["demo_with_patch_rc"] = rc_with
    confirm["demo_without_patch_rc"] = rc_without
    confirm["demo_with_patch_tail"] = out_with[-600:]
    confirm["demo_without_patch_tail"] = out_without[-300:]
    print(f"demo: with patch rc={rc_with}, without rc={rc_without}")

rc, out = sh("git -C /repo status --short")
if out.strip():
    print("REFUSING: /repo has uncommitted changes (they would be lost):", out)
    sys.exit(3)
# the patch must apply to /repo's HEAD
rc, out = sh(f"git -C /repo apply --check {dst}/patch.diff")
if rc != 0:
    print("patch does not apply to /repo:", out)
    confirm["applies_to_repo"] = False
else:
    confirm["applies_to_repo"] = True
    sh(f"git -C /repo apply {dst}/patch.diff")
    results = {}
    try:
        for pid in ids:
            t = time.time()
            rc, out = sh(f"./check {pid} quick", cwd="/verif")
            viol = [l for l in out.splitlines() if l.startswith("VIOLATION") or l.startswith("violation in part")]
            results[pid] = {"exit": rc, "wall_s": round(time.time() - t, 1), "lines": [v[:400] for v in viol[:4]]}
            print(pid, "exit", rc, f"{time.time()-t:.1f}s", (viol[0][:300] if viol else out[-300:]))
    finally:
        sh("git -C /repo checkout -- .")
    confirm["checks_quick"] = results
    confirm["caught"] = [p for p, r in results.items() if r["exit"] == 1]
rc, out = sh("git -C /repo status --short")
if out.strip():
    print("WARNING: /repo not clean:", out)
meta["confirmed_by_main_session"] = confirm
json.dump(meta, open(f"{dst}/meta.json", "w"), indent=1)
