#!/bin/bash
# run every claimed check (quick by default) and print one line per property
tier="${1:-quick}"
cd /verif
./check --build || exit 2
rc=0
for id in $(python3 -c "import json;print(' '.join(c['property_id'] for c in json.load(open('MANIFEST.json'))['checks']))"); do
  out=$(./check $id $tier 2>&1); c=$?
  echo "$id exit=$c $(echo "$out" | grep -E "^$id $tier:" | tail -1)"
  if [ $c -ne 0 ]; then rc=1; echo "$out" | grep -E "VIOLATION|KNOWN-FINDING|violation in part" | cut -c1-300; fi
done
exit $rc
