#!/usr/bin/env python3
"""Re-run the quick checks against every seeded change under /verif/seeded.

For each seeded/<name>/patch.diff: refuse if /repo is dirty, apply, run the quick check of every property in
meta.json's "caught" list (or all properties with --all), revert with `git checkout -- .`, and write
seeded/MATRIX.json. Exit 1 if a change that used to be caught is now missed.
Usage: tools/run_seeded.py [--all] [name-prefix ...]
"""
import json, os, subprocess, sys, time

V = "/verif"
R = "/repo"


def sh(cmd, **kw):
    return subprocess.run(cmd, shell=True, text=True, capture_output=True, **kw)


def main():
    args = [a for a in sys.argv[1:] if not a.startswith("--")]
    run_all = "--all" in sys.argv
    if sh(f"git -C {R} status --porcelain").stdout.strip():
        print("refusing: /repo has uncommitted changes")
        return 2
    all_ids = [c["property_id"] for c in json.load(open(f"{V}/MANIFEST.json"))["checks"]]
    matrix = {}
    missed = []
    for name in sorted(os.listdir(f"{V}/seeded")):
        d = f"{V}/seeded/{name}"
        if not os.path.isfile(f"{d}/patch.diff"):
            continue
        if args and not any(name.startswith(a) for a in args):
            continue
        meta = json.load(open(f"{d}/meta.json"))
        if meta.get("retired"):
            print(f"{name}: retired ({meta.get('retired_reason','')[:80]}...)")
            matrix[name] = {"retired": True, "reason": meta.get("retired_reason")}
            continue
        expect = meta.get("confirmed_by_main_session", {}).get("caught") or [meta["property"]]
        accepted_miss = bool(meta.get("accepted_miss"))
        ids = all_ids if run_all else expect
        a = sh(f"git -C {R} apply {d}/patch.diff")
        if a.returncode != 0:
            print(f"{name}: patch does not apply: {a.stderr.strip()[:200]}")
            matrix[name] = {"applies": False}
            missed.append(name)
            continue
        row = {}
        try:
            for pid in ids:
                t = time.time()
                r = sh(f"{V}/check {pid} quick")
                line = next((l for l in r.stdout.splitlines() if l.startswith("violation in part")), "")
                row[pid] = {"exit": r.returncode, "wall_s": round(time.time() - t, 1), "first": line[:240]}
        finally:
            sh(f"git -C {R} checkout -- .")
        caught = [p for p, v in row.items() if v["exit"] == 1]
        matrix[name] = {"applies": True, "expected": expect, "caught": caught, "accepted_miss": accepted_miss, "runs": row}
        ok = all(p in caught for p in expect) or accepted_miss
        print(f"{name}: caught by {caught} {'' if ok else '  <-- MISSED (expected ' + str(expect) + ')'}", flush=True)
        if not ok:
            missed.append(name)
    if not args:
        json.dump(matrix, open(f"{V}/seeded/MATRIX.json", "w"), indent=1)
    sh(f"{V}/check --build")
    return 1 if missed else 0


if __name__ == "__main__":
    sys.exit(main())
