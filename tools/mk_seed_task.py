#!/usr/bin/env python3
"""mk_seed_task.py <ID> <tag> [hint...] : create a scratch worktree /tmp/wt_<ID>_<tag> and a task file for a mutant-writing sub-agent."""
import json, os, subprocess, sys
pid, tag = sys.argv[1], sys.argv[2]
hint = " ".join(sys.argv[3:])
wt = f"/tmp/wt_{pid}_{tag}"
subprocess.check_call(["git", "-C", "/repo", "worktree", "add", "-q", "--detach", wt, "HEAD"])
subprocess.check_call(["cp", "/repo/Cargo.lock", wt + "/"])
prop = None
for l in open("/verif/properties.jsonl"):
    d = json.loads(l)
    if d["id"] == pid:
        prop = d
text = f"""You are helping to evaluate a verification framework by producing a realistic, subtle regression ("seeded defect") in a Rust code base.
Work ONLY inside the git worktree {wt} (a checkout of ASU-cubesat/cfdp-rs: a Rust implementation of the CCSDS File Delivery Protocol; crates cfdp-core = PDU codec + filestore, cfdp-daemon = tokio daemon with send/receive transaction state machines, timers, UDP transport).
Do not touch /repo or /verif and do not read anything under /verif. There is no network: build with `cargo ... --offline` (a Cargo.lock is already in the worktree). Build output must stay inside the worktree (default target dir).

THE PROPERTY THAT YOUR CHANGE MUST BREAK ({pid}): {prop['title']}
Statement: {prop['statement']}
Quantified over: {prop['quantifier']['text']}
Why the existing tests cannot settle it: {prop['why_tests_cant']}
Code anchors: {json.dumps(prop['anchors'])}

YOUR TASK: produce ONE small source change to non-test code (a plausible refactoring slip, "optimisation" or off-by-one; 1-20 lines) that
 (1) still compiles,
 (2) still passes the ENTIRE existing test suite unchanged: `cargo test --workspace --offline --no-fail-fast` (three integration tests series_f1::f1s08, f1s09, f1s10 already fail or flake on the unmodified tree: ignore those three; everything else must still pass),
 (3) breaks the property above, but ONLY when something specific happens: a particular interleaving, a crash/fault/loss at a particular point, a multi-step sequence of operations, an unusual input, or two cooperating sites that each look fine alone. It must NOT be something ordinary use (a plain fault-free transfer, a typical input) would expose at once.
{('Hint / requested flavour: ' + hint) if hint else ''}
Do not edit, delete or weaken existing tests. Do not add cfg flags or environment switches: the change must be unconditional code.

Also write a DEMONSTRATION: a new test (new file or new test module; for daemon behaviour you may model it on the existing tests in cfdp-daemon/src/transaction/*.rs or cfdp-daemon/tests/) or a small example program that FAILS with your change and PASSES without it. Verify both directions yourself (e.g. `git apply -R` the source patch, run the demo, re-apply).

DELIVERABLES in {wt}/_seeded/ (create the directory):
  - patch.diff : `git diff` of ONLY the source change (not the demo), relative to the worktree root, applicable with `git apply`.
  - demo.diff  : `git diff` (include new files: use `git add -N` first) of ONLY the demonstration, applicable on top of either tree.
  - meta.json  : {{"property": "{pid}", "summary": "what was changed", "needs": "what specific input / sequence / interleaving / fault is needed for it to manifest", "demo_cmd": "exact command that runs the demonstration", "suite_cmd": "cargo test --workspace --offline --no-fail-fast", "suite_result": "passed/failed counts with the patch applied", "demo_fails_with_patch": true, "demo_passes_without_patch": true}}
When finished, leave the worktree with the patch and the demo both applied and reply with a short summary: what you changed, what is needed to trigger it, which commands you ran and their results. Be efficient: a build takes about 1 minute, the full suite 1-2 minutes.
"""
os.makedirs(f"/tmp/seed", exist_ok=True)
open(f"/tmp/seed/{pid}_{tag}.md", "w").write(text)
print(f"/tmp/seed/{pid}_{tag}.md", wt)
