//! E3 — PDUs fabricated by the harness for a "puppet" peer (an entity without daemon).
//! The bytes are produced with cfdp-core's own encoder (the codec is the subject of C05/C06).
#![allow(dead_code)]

use cfdp_core::filestore::ChecksumType;
use cfdp_core::pdu::*;

use crate::sim::Scenario;

#[derive(Clone, Debug)]
pub struct Pup {
    /// source entity of the transaction (the sending side)
    pub src: VariableID,
    /// destination entity (the receiving side)
    pub dst: VariableID,
    pub seq: VariableID,
    pub crc: bool,
    pub large: bool,
    pub unack: bool,
}

impl Pup {
    /// the transaction of put `k` of the scenario
    pub fn for_put(sc: &Scenario, k: usize) -> Pup {
        let p = &sc.puts[k];
        let id = sc.put_id(k);
        Pup {
            src: id.0,
            dst: sc.entity_id(p.to),
            seq: id.1,
            crc: sc.entities[p.from].cfg.crc,
            large: false,
            unack: p.unack,
        }
    }

    pub fn fss(&self) -> FileSizeFlag {
        if self.large {
            FileSizeFlag::Large
        } else {
            FileSizeFlag::Small
        }
    }

    fn header(&self, dir: Direction, payload: &PDUPayload) -> PDUHeader {
        PDUHeader {
            version: U3::One,
            pdu_type: match payload {
                PDUPayload::FileData(_) => PDUType::FileData,
                PDUPayload::Directive(_) => PDUType::FileDirective,
            },
            direction: dir,
            transmission_mode: if self.unack {
                TransmissionMode::Unacknowledged
            } else {
                TransmissionMode::Acknowledged
            },
            crc_flag: if self.crc { CRCFlag::Present } else { CRCFlag::NotPresent },
            large_file_flag: self.fss(),
            pdu_data_field_length: payload.encoded_len(self.fss()),
            segmentation_control: SegmentationControl::NotPreserved,
            segment_metadata_flag: SegmentedData::NotPresent,
            source_entity_id: self.src,
            transaction_sequence_number: self.seq,
            destination_entity_id: self.dst,
        }
    }

    fn pdu(&self, dir: Direction, payload: PDUPayload) -> Vec<u8> {
        let header = self.header(dir, &payload);
        PDU { header, payload }.encode()
    }

    // ---------------------------------------------------------------- towards the receiver
    pub fn metadata(&self, size: u64, src_name: &str, dst_name: &str, closure: bool, null_checksum: bool, options: Vec<MetadataTLV>) -> Vec<u8> {
        self.pdu(
            Direction::ToReceiver,
            PDUPayload::Directive(Operations::Metadata(MetadataPDU {
                closure_requested: closure,
                checksum_type: if null_checksum { ChecksumType::Null } else { ChecksumType::Modular },
                file_size: size,
                source_filename: src_name.into(),
                destination_filename: dst_name.into(),
                options,
            })),
        )
    }
    pub fn data(&self, offset: u64, bytes: &[u8]) -> Vec<u8> {
        self.pdu(
            Direction::ToReceiver,
            PDUPayload::FileData(FileDataPDU::Unsegmented(UnsegmentedFileData {
                offset,
                file_data: bytes.to_vec(),
            })),
        )
    }
    pub fn eof(&self, condition: Condition, checksum: u32, size: u64) -> Vec<u8> {
        self.pdu(
            Direction::ToReceiver,
            PDUPayload::Directive(Operations::EoF(EndOfFile {
                condition,
                checksum,
                file_size: size,
                fault_location: if condition == Condition::NoError { None } else { Some(self.src) },
            })),
        )
    }
    pub fn ack_finished(&self, condition: Condition) -> Vec<u8> {
        self.pdu(
            Direction::ToReceiver,
            PDUPayload::Directive(Operations::Ack(PositiveAcknowledgePDU {
                directive: PDUDirective::Finished,
                directive_subtype_code: ACKSubDirective::Finished,
                condition,
                transaction_status: TransactionStatus::Active,
            })),
        )
    }
    pub fn prompt(&self, nak: bool) -> Vec<u8> {
        self.pdu(
            Direction::ToReceiver,
            PDUPayload::Directive(Operations::Prompt(PromptPDU {
                nak_or_keep_alive: if nak { NakOrKeepAlive::Nak } else { NakOrKeepAlive::KeepAlive },
            })),
        )
    }

    // ---------------------------------------------------------------- towards the sender
    pub fn ack_eof(&self, condition: Condition) -> Vec<u8> {
        self.pdu(
            Direction::ToSender,
            PDUPayload::Directive(Operations::Ack(PositiveAcknowledgePDU {
                directive: PDUDirective::EoF,
                directive_subtype_code: ACKSubDirective::Other,
                condition,
                transaction_status: TransactionStatus::Active,
            })),
        )
    }
    pub fn nak(&self, scope_start: u64, scope_end: u64, requests: &[(u64, u64)]) -> Vec<u8> {
        self.pdu(
            Direction::ToSender,
            PDUPayload::Directive(Operations::Nak(NegativeAcknowledgmentPDU {
                start_of_scope: scope_start,
                end_of_scope: scope_end,
                segment_requests: requests
                    .iter()
                    .map(|(s, e)| SegmentRequestForm {
                        start_offset: *s,
                        end_offset: *e,
                    })
                    .collect(),
            })),
        )
    }
    pub fn finished(&self, condition: Condition, complete: bool, status: FileStatusCode, responses: Vec<FileStoreResponse>) -> Vec<u8> {
        self.pdu(
            Direction::ToSender,
            PDUPayload::Directive(Operations::Finished(Finished {
                condition,
                delivery_code: if complete { DeliveryCode::Complete } else { DeliveryCode::Incomplete },
                file_status: status,
                filestore_response: responses,
                fault_location: if condition == Condition::NoError { None } else { Some(self.dst) },
            })),
        )
    }
    pub fn keepalive(&self, progress: u64) -> Vec<u8> {
        self.pdu(Direction::ToSender, PDUPayload::Directive(Operations::KeepAlive(KeepAlivePDU { progress })))
    }
}

/// CCSDS modular checksum (harness reference, same as props::c14::reference_checksum)
pub fn modular(data: &[u8]) -> u32 {
    let mut sum: u32 = 0;
    for chunk in data.chunks(4) {
        let mut w = [0u8; 4];
        w[..chunk.len()].copy_from_slice(chunk);
        sum = sum.wrapping_add(u32::from_be_bytes(w));
    }
    sum
}
