//! Common machinery: check context, evidence, known findings, replay files, parallel drivers.
#![allow(dead_code)]

use std::collections::{BTreeMap, HashSet};
use std::fmt::Debug;
use std::hash::{Hash, Hasher};
use std::panic::{catch_unwind, AssertUnwindSafe};
use std::path::PathBuf;
use std::sync::atomic::{AtomicBool, AtomicU64, Ordering};
use std::sync::Mutex;
use std::time::Instant;

use proptest::strategy::{Strategy, ValueTree};
use proptest::test_runner::{Config, RngSeed, TestCaseError, TestError, TestRunner};
use serde::{de::DeserializeOwned, Serialize};
use serde_json::{json, Value};

pub const VERIF_DIR: &str = "/verif";
pub const WORKERS: usize = 16;

#[derive(Clone, Copy, PartialEq, Eq, Debug)]
pub enum Tier {
    Quick,
    Thorough,
}
impl Tier {
    pub fn name(&self) -> &'static str {
        match self {
            Tier::Quick => "quick",
            Tier::Thorough => "thorough",
        }
    }
    /// pick a tier-dependent constant
    pub fn pick<T>(&self, quick: T, thorough: T) -> T {
        match self {
            Tier::Quick => quick,
            Tier::Thorough => thorough,
        }
    }
}

// ------------------------------------------------------------------------------------------------
// deterministic helpers

pub fn splitmix(mut x: u64) -> u64 {
    x = x.wrapping_add(0x9E37_79B9_7F4A_7C15);
    let mut z = x;
    z = (z ^ (z >> 30)).wrapping_mul(0xBF58_476D_1CE4_E5B9);
    z = (z ^ (z >> 27)).wrapping_mul(0x94D0_49BB_1331_11EB);
    z ^ (z >> 31)
}

pub fn mix(a: u64, b: u64) -> u64 {
    splitmix(a ^ splitmix(b))
}

/// FNV-1a based stable hasher (std's DefaultHasher is not guaranteed stable, and we never want
/// evidence counts to depend on the process).
pub struct Fnv(u64);
impl Fnv {
    pub fn new() -> Self {
        Fnv(0xcbf2_9ce4_8422_2325)
    }
}
impl Hasher for Fnv {
    fn finish(&self) -> u64 {
        splitmix(self.0)
    }
    fn write(&mut self, bytes: &[u8]) {
        for b in bytes {
            self.0 ^= *b as u64;
            self.0 = self.0.wrapping_mul(0x0000_0100_0000_01B3);
        }
    }
}
pub fn hash_of<T: Hash + ?Sized>(t: &T) -> u64 {
    let mut h = Fnv::new();
    t.hash(&mut h);
    h.finish()
}
pub fn hash_str(s: &str) -> u64 {
    hash_of(s.as_bytes())
}
pub fn hash_json<T: Serialize>(t: &T) -> u64 {
    hash_str(&serde_json::to_string(t).unwrap_or_default())
}

/// A tiny deterministic PRNG for places where a value is derived from an index (enumerators that
/// sample) – the concrete case is always stored in the replay, so no shrinking is lost.
#[derive(Clone)]
pub struct Prng(pub u64);
impl Prng {
    pub fn new(seed: u64) -> Self {
        Prng(splitmix(seed))
    }
    pub fn next(&mut self) -> u64 {
        self.0 = self.0.wrapping_add(0x9E37_79B9_7F4A_7C15);
        splitmix(self.0)
    }
    pub fn below(&mut self, n: u64) -> u64 {
        if n == 0 {
            0
        } else {
            self.next() % n
        }
    }
    pub fn range(&mut self, lo: u64, hi_incl: u64) -> u64 {
        lo + self.below(hi_incl - lo + 1)
    }
    pub fn chance(&mut self, num: u64, den: u64) -> bool {
        self.below(den) < num
    }
    pub fn pick<'a, T>(&mut self, v: &'a [T]) -> &'a T {
        &v[self.below(v.len() as u64) as usize]
    }
    pub fn bytes(&mut self, n: usize) -> Vec<u8> {
        let mut out = Vec::with_capacity(n + 8);
        while out.len() < n {
            out.extend_from_slice(&self.next().to_le_bytes());
        }
        out.truncate(n);
        out
    }
}

// ------------------------------------------------------------------------------------------------
// panics: thread-local capture so that a panic inside the code under test is an observation

thread_local! {
    static PANIC_LOG: std::cell::RefCell<Vec<String>> = const { std::cell::RefCell::new(Vec::new()) };
    static PANIC_QUIET: std::cell::Cell<bool> = const { std::cell::Cell::new(false) };
}

pub fn install_panic_hook() {
    let default = std::panic::take_hook();
    std::panic::set_hook(Box::new(move |info| {
        let loc = info
            .location()
            .map(|l| format!("{}:{}", normalize_path(l.file()), l.line()))
            .unwrap_or_else(|| "?".into());
        let msg = if let Some(s) = info.payload().downcast_ref::<&str>() {
            s.to_string()
        } else if let Some(s) = info.payload().downcast_ref::<String>() {
            s.clone()
        } else {
            "?".into()
        };
        let quiet = PANIC_QUIET.with(|q| q.get());
        PANIC_LOG.with(|l| l.borrow_mut().push(format!("panic@{loc}: {msg}")));
        if !quiet {
            default(info);
        }
    }));
}

fn normalize_path(p: &str) -> String {
    // make locations independent of where the repository is checked out
    if let Some(i) = p.find("cfdp-core/") {
        return p[i..].to_string();
    }
    if let Some(i) = p.find("cfdp-daemon/") {
        return p[i..].to_string();
    }
    p.to_string()
}

/// Run `f`, catching a panic; returns Err(first recorded "panic@file:line: msg").
pub fn guarded<T>(f: impl FnOnce() -> T) -> Result<T, String> {
    PANIC_QUIET.with(|q| q.set(true));
    PANIC_LOG.with(|l| l.borrow_mut().clear());
    let r = catch_unwind(AssertUnwindSafe(f));
    PANIC_QUIET.with(|q| q.set(false));
    match r {
        Ok(v) => Ok(v),
        Err(_) => {
            let first = PANIC_LOG.with(|l| l.borrow().first().cloned());
            Err(first.unwrap_or_else(|| "panic@?".into()))
        }
    }
}

pub fn set_panic_quiet(q: bool) {
    PANIC_QUIET.with(|c| c.set(q));
}
pub fn take_panics() -> Vec<String> {
    PANIC_LOG.with(|l| std::mem::take(&mut *l.borrow_mut()))
}
/// "panic@file:line: msg" -> "panic@file:line"
pub fn panic_site(p: &str) -> String {
    match p.find(": ") {
        Some(i) => p[..i].to_string(),
        None => p.to_string(),
    }
}

// ------------------------------------------------------------------------------------------------
// watchdog: a wall-clock limit never yields a violation, only "inconclusive" (exit 2)

static HEARTBEAT: AtomicU64 = AtomicU64::new(0);

#[inline]
pub fn heartbeat() {
    HEARTBEAT.fetch_add(1, Ordering::Relaxed);
}

/// Exit with status 2 when no case completes for `secs` seconds.
pub fn start_watchdog(secs: u64) {
    std::thread::spawn(move || {
        let mut last = HEARTBEAT.load(Ordering::Relaxed);
        let mut idle = 0u64;
        loop {
            std::thread::sleep(std::time::Duration::from_secs(5));
            let now = HEARTBEAT.load(Ordering::Relaxed);
            if now == last {
                idle += 5;
                if idle >= secs {
                    eprintln!("WATCHDOG: no case finished for {idle} s - inconclusive (hang in the code under test or in the harness)");
                    cleanup_scratch();
                    std::process::exit(2);
                }
            } else {
                idle = 0;
                last = now;
            }
        }
    });
}

// ------------------------------------------------------------------------------------------------
// scratch space

pub fn scratch_root() -> PathBuf {
    // a fuzz target started by a check works inside that check's scratch directory
    if let Ok(d) = std::env::var("CFDP_VERIF_SCRATCH") {
        if !d.is_empty() {
            return PathBuf::from(d);
        }
    }
    let base = if std::path::Path::new("/dev/shm").is_dir() {
        PathBuf::from("/dev/shm")
    } else {
        std::env::temp_dir()
    };
    base.join(format!("cfdp-verif.{}", std::process::id()))
}

pub fn init_scratch() -> PathBuf {
    let root = scratch_root();
    let _ = std::fs::remove_dir_all(&root);
    std::fs::create_dir_all(root.join("tmp")).expect("scratch dir");
    // the receiver stages incoming data in tempfile::tempfile(), which honours TMPDIR
    std::env::set_var("TMPDIR", root.join("tmp"));
    root
}

pub fn cleanup_scratch() {
    let _ = std::fs::remove_dir_all(scratch_root());
}

thread_local! {
    static WORKER_DIR: std::cell::RefCell<Option<PathBuf>> = const { std::cell::RefCell::new(None) };
}
static NEXT_WORKER_DIR: AtomicU64 = AtomicU64::new(0);

/// A directory private to the calling thread (created on first use).
pub fn worker_dir() -> PathBuf {
    WORKER_DIR.with(|w| {
        let mut w = w.borrow_mut();
        if w.is_none() {
            let k = NEXT_WORKER_DIR.fetch_add(1, Ordering::Relaxed);
            let d = scratch_root().join(format!("w{k}"));
            std::fs::create_dir_all(&d).expect("worker dir");
            *w = Some(d);
        }
        w.clone().unwrap()
    })
}

// ------------------------------------------------------------------------------------------------
// case outcome

#[derive(Debug, Clone)]
pub struct Fail {
    /// stable signature: names the oracle clause and the reaching condition; used to match known findings
    pub key: String,
    /// human readable detail
    pub msg: String,
}

#[derive(Debug, Clone, Default)]
pub struct CaseOut {
    /// Some(hash) when the case is non-trivial by the part's rule; the hash identifies distinct cases
    pub nontrivial: Option<u64>,
    /// class labels for the distribution histogram
    pub classes: Vec<&'static str>,
    pub fail: Option<Fail>,
}
impl CaseOut {
    pub fn ok() -> Self {
        Self::default()
    }
    pub fn nt(mut self, h: u64) -> Self {
        self.nontrivial = Some(h);
        self
    }
    pub fn class(mut self, c: &'static str) -> Self {
        self.classes.push(c);
        self
    }
    pub fn class_if(mut self, cond: bool, c: &'static str) -> Self {
        if cond {
            self.classes.push(c);
        }
        self
    }
    pub fn failed(mut self, key: impl Into<String>, msg: impl Into<String>) -> Self {
        if self.fail.is_none() {
            self.fail = Some(Fail {
                key: key.into(),
                msg: msg.into(),
            });
        }
        self
    }
}

/// A family of cases with one executable oracle.
pub trait Part: Sync {
    type Case: Serialize + DeserializeOwned + Clone + Debug + Send;
    fn name(&self) -> &'static str;
    fn run(&self, case: &Self::Case) -> CaseOut;
}

// ------------------------------------------------------------------------------------------------
// known findings

#[derive(Debug, Clone, serde::Deserialize, serde::Serialize)]
pub struct KnownFinding {
    pub property: String,
    /// must equal the Fail.key produced by the oracle (exact match)
    pub key: String,
    /// "open" or "fixed"
    pub status: String,
    pub what: String,
    /// the part whose replay demonstrates it
    #[serde(default)]
    pub part: String,
    /// the concrete minimal failing case (same format as a replay file's "case")
    #[serde(default)]
    pub case: Value,
    #[serde(default)]
    pub commit: String,
}

pub fn load_known() -> Vec<KnownFinding> {
    let p = format!("{VERIF_DIR}/known_findings.json");
    match std::fs::read_to_string(&p) {
        Ok(s) => serde_json::from_str(&s).unwrap_or_else(|e| {
            eprintln!("cannot parse {p}: {e}");
            std::process::exit(2)
        }),
        Err(_) => vec![],
    }
}

// ------------------------------------------------------------------------------------------------
// context

#[derive(Default)]
struct PartStats {
    evaluations: u64,
    nontrivial: HashSet<u64>,
    classes: BTreeMap<&'static str, u64>,
    samples: Vec<Value>,
    excluded_known: u64,
    exhaustive: bool,
    note: String,
}

pub struct Violation {
    pub part: String,
    pub key: String,
    pub msg: String,
    pub case: Value,
}

pub struct Ctx {
    pub id: String,
    pub tier: Tier,
    pub seed: u64,
    pub known: Vec<KnownFinding>,
    parts: BTreeMap<String, PartStats>,
    part_order: Vec<String>,
    pub violations: Vec<Violation>,
    pub known_hits: BTreeMap<String, u64>,
    pub rule: String,
    pub assumptions: Vec<String>,
    pub level: &'static str,
    pub extra: BTreeMap<String, Value>,
    start: Instant,
    /// when replaying, be verbose and strict
    pub replay_mode: bool,
    /// label of the current section: statistics are kept per "part/section"
    pub section: String,
}

impl Ctx {
    pub fn new(id: &str, tier: Tier, seed: u64) -> Self {
        Ctx {
            id: id.to_string(),
            tier,
            seed,
            known: load_known()
                .into_iter()
                .filter(|k| k.property == id)
                .collect(),
            parts: BTreeMap::new(),
            part_order: vec![],
            violations: vec![],
            known_hits: BTreeMap::new(),
            rule: String::new(),
            assumptions: vec![],
            level: "exploration",
            extra: BTreeMap::new(),
            start: Instant::now(),
            replay_mode: false,
            section: String::new(),
        }
    }

    pub fn seed_for(&self, part: &str, k: u64) -> u64 {
        mix(mix(self.seed, hash_str(&self.id)), mix(hash_str(part), k))
    }

    fn is_known_open(&self, key: &str) -> bool {
        self.known
            .iter()
            .any(|k| k.status == "open" && k.key == key)
    }

    fn stats(&mut self, part: &str) -> &mut PartStats {
        let part = &if self.section.is_empty() {
            part.to_string()
        } else {
            format!("{part}/{}", self.section)
        };
        let part = part.as_str();
        if !self.parts.contains_key(part) {
            self.part_order.push(part.to_string());
            self.parts.insert(part.to_string(), PartStats::default());
        }
        self.parts.get_mut(part).unwrap()
    }

    pub fn note(&mut self, part: &str, note: impl Into<String>) {
        self.stats(part).note = note.into();
    }

    /// Enumerated cases (exhaustive or indexed sampling). Cases are produced by `gen(i)` for
    /// i in 0..n and run on all cores; the violating case with the smallest index is reported.
    pub fn drive_indexed<P: Part>(
        &mut self,
        part: &P,
        n: u64,
        exhaustive: bool,
        gen: impl Fn(u64) -> P::Case + Sync,
    ) {
        let name = part.name().to_string();
        let next = AtomicU64::new(0);
        let merged: Mutex<PartStats> = Mutex::new(PartStats::default());
        let fails: Mutex<Vec<(u64, Fail, Value)>> = Mutex::new(vec![]);
        let known_hits: Mutex<BTreeMap<String, u64>> = Mutex::new(BTreeMap::new());
        let stop = AtomicBool::new(false);
        let known_keys: HashSet<String> = self
            .known
            .iter()
            .filter(|k| k.status == "open")
            .map(|k| k.key.clone())
            .collect();
        let sample_idx: HashSet<u64> = [0, 1, n / 3, n / 2, (2 * n) / 3, n.saturating_sub(1)]
            .into_iter()
            .collect();
        let chunk = std::cmp::max(1, std::cmp::min(256, n / (WORKERS as u64 * 8) + 1));
        std::thread::scope(|s| {
            for _ in 0..WORKERS {
                s.spawn(|| {
                    let mut local = PartStats::default();
                    let mut local_known: BTreeMap<String, u64> = BTreeMap::new();
                    loop {
                        if stop.load(Ordering::Relaxed) {
                            break;
                        }
                        let lo = next.fetch_add(chunk, Ordering::Relaxed);
                        if lo >= n {
                            break;
                        }
                        let hi = std::cmp::min(n, lo + chunk);
                        for i in lo..hi {
                            let case = gen(i);
                            let out = part.run(&case);
                            heartbeat();
                            local.evaluations += 1;
                            if let Some(h) = out.nontrivial {
                                local.nontrivial.insert(h);
                            }
                            for c in &out.classes {
                                *local.classes.entry(c).or_insert(0) += 1;
                            }
                            if sample_idx.contains(&i) {
                                local.samples.push(
                                    json!({"part": part.name(), "index": i, "case": to_value_capped(&case)}),
                                );
                            }
                            if let Some(f) = out.fail {
                                if known_keys.contains(&f.key) {
                                    local.excluded_known += 1;
                                    *local_known.entry(f.key.clone()).or_insert(0) += 1;
                                } else {
                                    let v = serde_json::to_value(&case).unwrap_or(Value::Null);
                                    fails.lock().unwrap().push((i, f, v));
                                    stop.store(true, Ordering::Relaxed);
                                }
                            }
                        }
                    }
                    let mut m = merged.lock().unwrap();
                    m.evaluations += local.evaluations;
                    m.nontrivial.extend(local.nontrivial);
                    for (k, v) in local.classes {
                        *m.classes.entry(k).or_insert(0) += v;
                    }
                    m.samples.extend(local.samples);
                    m.excluded_known += local.excluded_known;
                    let mut kh = known_hits.lock().unwrap();
                    for (k, v) in local_known {
                        *kh.entry(k).or_insert(0) += v;
                    }
                });
            }
        });
        let m = merged.into_inner().unwrap();
        let mut fails = fails.into_inner().unwrap();
        fails.sort_by_key(|f| f.0);
        let complete = fails.is_empty();
        {
            let st = self.stats(&name);
            st.evaluations += m.evaluations;
            st.nontrivial.extend(m.nontrivial);
            for (k, v) in m.classes {
                *st.classes.entry(k).or_insert(0) += v;
            }
            let mut samples = m.samples;
            samples.sort_by_key(|s| s["index"].as_u64().unwrap_or(0));
            st.samples.extend(samples);
            st.excluded_known += m.excluded_known;
            st.exhaustive = exhaustive && complete;
        }
        for (k, v) in known_hits.into_inner().unwrap() {
            *self.known_hits.entry(k).or_insert(0) += v;
        }
        if let Some((_, f, v)) = fails.into_iter().next() {
            self.violations.push(Violation {
                part: name,
                key: f.key,
                msg: f.msg,
                case: v,
            });
        }
    }

    /// Convenience: run an explicit list of cases.
    pub fn drive_list<P: Part>(&mut self, part: &P, cases: Vec<P::Case>, exhaustive: bool)
    where
        P::Case: Sync,
    {
        let n = cases.len() as u64;
        self.drive_indexed(part, n, exhaustive, |i| cases[i as usize].clone());
    }

    /// Random generation + shrinking with proptest: `total` cases split over the workers, each
    /// with its own deterministic runner.
    pub fn drive_proptest<P: Part, S>(&mut self, part: &P, strategy: S, total: u64, max_shrink: u32)
    where
        S: Strategy<Value = P::Case> + Sync,
    {
        let name = part.name().to_string();
        let per = std::cmp::max(1, total / WORKERS as u64);
        let merged: Mutex<PartStats> = Mutex::new(PartStats::default());
        let fails: Mutex<Vec<(usize, Fail, Value)>> = Mutex::new(vec![]);
        let known_hits: Mutex<BTreeMap<String, u64>> = Mutex::new(BTreeMap::new());
        let known_keys: HashSet<String> = self
            .known
            .iter()
            .filter(|k| k.status == "open")
            .map(|k| k.key.clone())
            .collect();
        let stop = AtomicBool::new(false);
        let seeds: Vec<u64> = (0..WORKERS as u64).map(|w| self.seed_for(&name, w)).collect();
        std::thread::scope(|s| {
            for w in 0..WORKERS {
                let seeds = &seeds;
                let merged = &merged;
                let fails = &fails;
                let known_hits = &known_hits;
                let known_keys = &known_keys;
                let stop = &stop;
                let strategy = &strategy;
                s.spawn(move || {
                    let mut cfg = Config::default();
                    cfg.cases = per as u32;
                    cfg.failure_persistence = None;
                    cfg.rng_seed = RngSeed::Fixed(seeds[w]);
                    cfg.max_shrink_iters = max_shrink;
                    cfg.max_global_rejects = 1 << 20;
                    cfg.verbose = 0;
                    let mut runner = TestRunner::new(cfg);
                    let local = std::cell::RefCell::new(PartStats::default());
                    let local_known = std::cell::RefCell::new(BTreeMap::<String, u64>::new());
                    let failing = std::cell::Cell::new(false);
                    let last_fail = std::cell::RefCell::new(None::<Fail>);
                    let res = runner.run(strategy, |case| {
                        if stop.load(Ordering::Relaxed) && !failing.get() {
                            // another worker found a violation: finish quickly
                            return Ok(());
                        }
                        let out = part.run(&case);
                        heartbeat();
                        if !failing.get() {
                            let mut l = local.borrow_mut();
                            l.evaluations += 1;
                            if let Some(h) = out.nontrivial {
                                l.nontrivial.insert(h);
                            }
                            for c in &out.classes {
                                *l.classes.entry(c).or_insert(0) += 1;
                            }
                            let k = l.evaluations;
                            if k == 1 || k == 2 || k == per / 2 || k == per {
                                l.samples.push(json!({"part": part.name(), "worker": w, "nth": k, "case": to_value_capped(&case)}));
                            }
                        }
                        if let Some(f) = out.fail {
                            if known_keys.contains(&f.key) {
                                if !failing.get() {
                                    local.borrow_mut().excluded_known += 1;
                                    *local_known.borrow_mut().entry(f.key.clone()).or_insert(0) += 1;
                                }
                                return Ok(());
                            }
                            failing.set(true);
                            stop.store(true, Ordering::Relaxed);
                            let key = f.key.clone();
                            *last_fail.borrow_mut() = Some(f);
                            return Err(TestCaseError::fail(key));
                        }
                        Ok(())
                    });
                    if let Err(TestError::Fail(_, minimal)) = res {
                        // re-run the minimal case to obtain its own message
                        let out = part.run(&minimal);
                        let f = out.fail.or_else(|| last_fail.borrow().clone()).unwrap_or(Fail {
                            key: "unknown".into(),
                            msg: "shrunk case no longer fails".into(),
                        });
                        let v = serde_json::to_value(&minimal).unwrap_or(Value::Null);
                        fails.lock().unwrap().push((w, f, v));
                    } else if let Err(TestError::Abort(r)) = res {
                        eprintln!("proptest aborted in part {}: {r}", part.name());
                        std::process::exit(2);
                    }
                    let l = local.into_inner();
                    let mut m = merged.lock().unwrap();
                    m.evaluations += l.evaluations;
                    m.nontrivial.extend(l.nontrivial);
                    for (k, v) in l.classes {
                        *m.classes.entry(k).or_insert(0) += v;
                    }
                    m.samples.extend(l.samples);
                    m.excluded_known += l.excluded_known;
                    let mut kh = known_hits.lock().unwrap();
                    for (k, v) in local_known.into_inner() {
                        *kh.entry(k).or_insert(0) += v;
                    }
                });
            }
        });
        let m = merged.into_inner().unwrap();
        {
            let st = self.stats(&name);
            st.evaluations += m.evaluations;
            st.nontrivial.extend(m.nontrivial);
            for (k, v) in m.classes {
                *st.classes.entry(k).or_insert(0) += v;
            }
            let mut samples = m.samples;
            samples.truncate(6);
            st.samples.extend(samples);
            st.excluded_known += m.excluded_known;
            st.exhaustive = false;
        }
        for (k, v) in known_hits.into_inner().unwrap() {
            *self.known_hits.entry(k).or_insert(0) += v;
        }
        let mut fails = fails.into_inner().unwrap();
        fails.sort_by_key(|f| (serde_json::to_string(&f.2).map(|s| s.len()).unwrap_or(0), f.0));
        if let Some((_, f, v)) = fails.into_iter().next() {
            self.violations.push(Violation {
                part: name,
                key: f.key,
                msg: f.msg,
                case: v,
            });
        }
    }

    /// Regression tier: run the stored cases of known findings of this property for `part`.
    /// open  -> must still fail with the same key: prints KNOWN-FINDING (if it passes, a note);
    /// fixed -> must pass, otherwise it is a violation again.
    pub fn run_known_replays<P: Part>(&mut self, part: &P) {
        let entries: Vec<KnownFinding> = self
            .known
            .iter()
            .filter(|k| k.part == part.name() && !k.case.is_null())
            .cloned()
            .collect();
        for k in entries {
            let case: P::Case = match serde_json::from_value(k.case.clone()) {
                Ok(c) => c,
                Err(e) => {
                    eprintln!("known finding {}: stored case does not parse: {e}", k.key);
                    std::process::exit(2);
                }
            };
            let out = part.run(&case);
            let id = self.id.clone();
            self.stats(part.name()).evaluations += 1;
            match (k.status.as_str(), out.fail) {
                ("open", Some(f)) if f.key == k.key => {
                    println!("KNOWN-FINDING: property={} {} [{}]", id, k.what, k.key);
                    self.stats(part.name()).excluded_known += 1;
                }
                ("open", Some(f)) => {
                    // it fails, but differently: that is a new violation
                    self.violations.push(Violation {
                        part: part.name().into(),
                        key: f.key,
                        msg: f.msg,
                        case: k.case.clone(),
                    });
                }
                ("open", None) => {
                    eprintln!(
                        "note: known finding {} no longer reproduces on this tree (stored case passes)",
                        k.key
                    );
                }
                (_, Some(f)) => {
                    self.violations.push(Violation {
                        part: part.name().into(),
                        key: f.key,
                        msg: format!("regression of fixed finding ({}): {}", k.what, f.msg),
                        case: k.case.clone(),
                    });
                }
                (_, None) => {}
            }
        }
    }

    pub fn evaluations(&self) -> u64 {
        self.parts.values().map(|p| p.evaluations).sum()
    }

    /// Write evidence, print verdict lines; returns the process exit code.
    pub fn finish(&mut self) -> i32 {
        let wall = self.start.elapsed().as_secs_f64();
        let mut replay_paths = vec![];
        for v in &self.violations {
            let dir = format!("{VERIF_DIR}/replays/{}", self.id);
            let _ = std::fs::create_dir_all(&dir);
            let body = json!({
                "property": self.id,
                "part": v.part,
                "key": v.key,
                "message": v.msg,
                "seed": self.seed,
                "case": v.case,
            });
            let h = hash_str(&format!("{}{}{}", v.part, v.key, v.case));
            let path = format!("{dir}/{:016x}.json", h);
            let _ = std::fs::write(&path, serde_json::to_string_pretty(&body).unwrap());
            eprintln!("violation in part {} [{}]: {}", v.part, v.key, truncate(&v.msg, 4000));
            println!("VIOLATION property={} replay={}", self.id, path);
            replay_paths.push(path);
        }
        if self.replay_mode {
            return if self.violations.is_empty() { 0 } else { 1 };
        }
        // evidence
        let mut evaluations = 0u64;
        let mut distinct = 0u64;
        let mut samples = vec![];
        let mut parts_json = serde_json::Map::new();
        let mut excluded = 0u64;
        let mut all_exhaustive = !self.parts.is_empty();
        for name in &self.part_order {
            let p = &self.parts[name];
            evaluations += p.evaluations;
            distinct += p.nontrivial.len() as u64;
            excluded += p.excluded_known;
            all_exhaustive &= p.exhaustive;
            for s in p.samples.iter().take(4) {
                samples.push(s.clone());
            }
            parts_json.insert(
                name.clone(),
                json!({
                    "evaluations": p.evaluations,
                    "distinct_nontrivial": p.nontrivial.len(),
                    "classes": p.classes,
                    "excluded_known": p.excluded_known,
                    "exhaustive_within_bounds": p.exhaustive,
                    "note": p.note,
                }),
            );
        }
        let mut coverage = serde_json::Map::new();
        coverage.insert("evaluations".into(), json!(evaluations));
        coverage.insert("distinct_nontrivial".into(), json!(distinct));
        coverage.insert("rule".into(), json!(self.rule));
        coverage.insert("samples".into(), Value::Array(samples));
        coverage.insert("exhaustive".into(), json!(all_exhaustive));
        coverage.insert("parts".into(), Value::Object(parts_json));
        coverage.insert("excluded_known".into(), json!(excluded));
        coverage.insert("known_finding_hits".into(), json!(self.known_hits));
        for (k, v) in &self.extra {
            coverage.insert(k.clone(), v.clone());
        }
        let ev = json!({
            "property_id": self.id,
            "tier": self.tier.name(),
            "seed": self.seed,
            "level": self.level,
            "coverage": Value::Object(coverage),
            "assumptions": self.assumptions,
            "wall_s": (wall * 1000.0).round() / 1000.0,
            "violations": self.violations.len(),
            "violation_replays": replay_paths,
        });
        let dir = format!("{VERIF_DIR}/evidence");
        let _ = std::fs::create_dir_all(&dir);
        let path = format!("{dir}/{}.json", self.id);
        if let Err(e) = std::fs::write(&path, serde_json::to_string_pretty(&ev).unwrap()) {
            eprintln!("cannot write evidence {path}: {e}");
            return 2;
        }
        eprintln!(
            "{} {}: {} cases, {} distinct non-trivial, {} excluded as known, {} violation(s), {:.1}s",
            self.id,
            self.tier.name(),
            evaluations,
            distinct,
            excluded,
            self.violations.len(),
            wall
        );
        if self.violations.is_empty() {
            0
        } else {
            1
        }
    }
}

pub fn truncate(s: &str, n: usize) -> String {
    if s.len() <= n {
        s.to_string()
    } else {
        let mut end = n;
        while !s.is_char_boundary(end) {
            end -= 1;
        }
        format!("{}… [{} more bytes]", &s[..end], s.len() - end)
    }
}

/// JSON value of a case for the evidence file, with long byte arrays shortened.
pub fn to_value_capped<T: Serialize>(t: &T) -> Value {
    fn cap(v: Value) -> Value {
        match v {
            Value::Array(a) => {
                if a.len() > 48 && a.iter().all(|x| x.is_number()) {
                    let n = a.len();
                    let mut head: Vec<Value> = a.into_iter().take(16).collect();
                    head.push(Value::String(format!("… {} numbers in total", n)));
                    Value::Array(head)
                } else if a.len() > 64 {
                    let n = a.len();
                    let mut head: Vec<Value> = a.into_iter().take(24).map(cap).collect();
                    head.push(Value::String(format!("… {} items in total", n)));
                    Value::Array(head)
                } else {
                    Value::Array(a.into_iter().map(cap).collect())
                }
            }
            Value::Object(o) => Value::Object(o.into_iter().map(|(k, v)| (k, cap(v))).collect()),
            Value::String(s) if s.len() > 300 => Value::String(truncate(&s, 300)),
            other => other,
        }
    }
    cap(serde_json::to_value(t).unwrap_or(Value::Null))
}

/// Generate one value from a strategy with a deterministic seed (used by enumerators that need a
/// generated ingredient but own the iteration).
pub fn sample_strategy<S: Strategy>(s: &S, seed: u64) -> S::Value {
    let mut cfg = Config::default();
    cfg.rng_seed = RngSeed::Fixed(seed);
    cfg.failure_persistence = None;
    let mut runner = TestRunner::new(cfg);
    s.new_tree(&mut runner).expect("strategy").current()
}
