//! E4 — libFuzzer campaigns (thorough tier of C05, C06, C15).
//!
//! The fuzz targets live in /verif/fuzz and call the same oracle functions as the E1 checks. A
//! campaign has a fixed number of runs (`-runs=N`, `-seed=VERIF_SEED`), starts from a seed corpus
//! of valid encodings generated on the fly, and any crashing input is re-executed through the
//! plain part function (bypassing libFuzzer) before it is reported.

use crate::common::*;
use serde_json::json;
use std::process::Command;

pub struct Campaign {
    pub target: &'static str,
    pub runs: u64,
    pub max_len: u32,
}

pub enum Outcome {
    /// campaign finished without finding anything
    Clean { execs: u64, secs: f64 },
    /// the fuzzer stopped on this input
    Crash { input: Vec<u8>, log_tail: String },
    /// tooling problem (nightly toolchain / cargo-fuzz missing, build failure): the campaign is inconclusive
    Unavailable(String),
}

pub fn write_seed_corpus(dir: &std::path::Path, target: &str) {
    let _ = std::fs::create_dir_all(dir);
    match target {
        "decode" => {
            for (n, (t, enc)) in crate::props::c06::seed_inputs().into_iter().enumerate() {
                let ti = crate::props::c06::TARGETS.iter().position(|x| *x == t).unwrap_or(0) as u8;
                let mut b = vec![ti];
                b.extend(enc);
                let _ = std::fs::write(dir.join(format!("{n:05}")), b);
            }
        }
        "roundtrip" => {
            for i in 0..200u64 {
                let mut b = vec![(i % 8) as u8];
                b.extend(Prng::new(i).bytes((i % 97) as usize));
                let _ = std::fs::write(dir.join(format!("{i:05}")), b);
            }
        }
        "sim_chaos" => {
            for i in 0..300u64 {
                let _ = std::fs::write(dir.join(format!("{i:05}")), Prng::new(i ^ 0xC03).bytes(24 + (i % 40) as usize));
            }
        }
        _ => {
            for i in 0..100u64 {
                let _ = std::fs::write(dir.join(format!("{i:05}")), Prng::new(i ^ 0xC15).bytes(4 + (i % 16) as usize));
            }
        }
    }
}

pub fn run_campaign(c: &Campaign, seed: u64) -> Outcome {
    let scratch = scratch_root().join(format!("fuzz_{}", c.target));
    let _ = std::fs::remove_dir_all(&scratch);
    let corpus = scratch.join("corpus");
    write_seed_corpus(&corpus, c.target);
    let art = scratch.join("artifacts");
    let _ = std::fs::create_dir_all(&art);
    let start = std::time::Instant::now();
    // the first build of the fuzz targets can take many minutes on a loaded machine: keep the watchdog fed while
    // the child runs (at most 60 min; a longer stall is reported as inconclusive by the watchdog)
    let done = std::sync::Arc::new(std::sync::atomic::AtomicBool::new(false));
    let done2 = done.clone();
    let feeder = std::thread::spawn(move || {
        let t0 = std::time::Instant::now();
        while !done2.load(std::sync::atomic::Ordering::Relaxed) && t0.elapsed().as_secs() < 3600 {
            heartbeat();
            std::thread::sleep(std::time::Duration::from_secs(5));
        }
    });
    let out = Command::new("cargo")
        .current_dir(format!("{VERIF_DIR}/harness"))
        .env("RUSTFLAGS", "--cfg cfdp_verif --cfg tokio_unstable")
        .env("CARGO_NET_OFFLINE", "true")
        .env_remove("TMPDIR")
        .args(["+nightly", "fuzz", "run", "--fuzz-dir", &format!("{VERIF_DIR}/fuzz"), c.target])
        .arg(&corpus)
        .arg("--")
        .arg(format!("-runs={}", c.runs))
        .arg(format!("-seed={}", std::cmp::max(1, seed % 0x7fff_ffff)))
        .arg("-len_control=0")
        .arg(format!("-max_len={}", c.max_len))
        .arg(format!("-artifact_prefix={}/", art.display()))
        .arg("-print_final_stats=1")
        .env("CFDP_VERIF_SCRATCH", scratch.join("work"))
        .output();
    done.store(true, std::sync::atomic::Ordering::Relaxed);
    let _ = feeder.join();
    let secs = start.elapsed().as_secs_f64();
    let out = match out {
        Ok(o) => o,
        Err(e) => return Outcome::Unavailable(format!("cannot start cargo fuzz: {e}")),
    };
    let log = String::from_utf8_lossy(&out.stderr).to_string();
    heartbeat();
    // a crash leaves an artifact
    if let Ok(rd) = std::fs::read_dir(&art) {
        for e in rd.flatten() {
            if let Ok(bytes) = std::fs::read(e.path()) {
                let tail: String = log.lines().rev().take(30).collect::<Vec<_>>().into_iter().rev().collect::<Vec<_>>().join("\n");
                return Outcome::Crash { input: bytes, log_tail: tail };
            }
        }
    }
    if !out.status.success() {
        let tail: String = log.lines().rev().take(25).collect::<Vec<_>>().into_iter().rev().collect::<Vec<_>>().join("\n");
        return Outcome::Unavailable(format!("cargo fuzz exited with {:?} without an artifact:\n{tail}", out.status.code()));
    }
    let execs = log
        .lines()
        .find_map(|l| l.strip_prefix("stat::number_of_executed_units:").map(|x| x.trim().parse::<u64>().unwrap_or(0)))
        .unwrap_or(c.runs);
    Outcome::Clean { execs, secs }
}

/// Run a campaign and fold its result into the check: `replay` turns a crashing input into a Part case result.
pub fn campaign_into_ctx(ctx: &mut Ctx, c: &Campaign, replay: impl Fn(&[u8]) -> (Option<Fail>, serde_json::Value, &'static str)) {
    let key = format!("fuzz_{}", c.target);
    match run_campaign(c, ctx.seed) {
        Outcome::Clean { execs, secs } => {
            ctx.extra.insert(key, json!({"status": "clean", "executions": execs, "runs_requested": c.runs, "wall_s": secs, "engine": "libFuzzer via cargo-fuzz, ASan, seed corpus of valid encodings"}));
        }
        Outcome::Crash { input, log_tail } => {
            let (fail, case, part) = replay(&input);
            match fail {
                Some(f) => {
                    ctx.extra.insert(key, json!({"status": "crash reproduced through the plain replay path", "input_len": input.len()}));
                    ctx.violations.push(Violation { part: part.to_string(), key: f.key, msg: format!("found by libFuzzer target {}: {}", c.target, f.msg), case });
                }
                None => {
                    eprintln!("libFuzzer target {} stopped on an input that the plain replay path accepts (not reported as a violation):\n{log_tail}", c.target);
                    ctx.extra.insert(key, json!({"status": "crash NOT reproduced through the plain replay path - inconclusive", "log_tail": log_tail}));
                }
            }
        }
        Outcome::Unavailable(why) => {
            eprintln!("fuzz campaign {} unavailable: {why}", c.target);
            ctx.extra.insert(key, json!({"status": "unavailable - campaign not run", "reason": truncate(&why, 600)}));
        }
    }
}
