//! cfdp-verif — property-based testing / fuzzing harness for ASU-cubesat/cfdp-rs (see /verif/DESIGN.md).
pub mod alloc;
pub mod common;
pub mod fuzzrun;
pub mod props;
pub mod puppet;
pub mod sim;
pub mod wire;

#[global_allocator]
static GLOBAL: alloc::Counting = alloc::Counting;
