//! Builders of well-formed codec values from a "choice tape" (a byte string).
//!
//! The same builders serve proptest (the tape is a generated `Vec<u8>`, shrinking shortens/zeroes
//! the tape, which yields simpler values) and libFuzzer (the fuzz input is the tape). When the
//! tape runs out every choice is 0, i.e. the minimal value.
#![allow(dead_code)]

use camino::Utf8PathBuf;
use cfdp_core::daemon::Report;
use cfdp_core::filestore::ChecksumType;
use cfdp_core::pdu::*;
use cfdp_core::transaction::{TransactionID, TransactionState};

pub struct Tape<'a> {
    data: &'a [u8],
    pos: usize,
}
impl<'a> Tape<'a> {
    pub fn new(data: &'a [u8]) -> Self {
        Tape { data, pos: 0 }
    }
    pub fn u8(&mut self) -> u8 {
        let b = self.data.get(self.pos).copied().unwrap_or(0);
        self.pos += 1;
        b
    }
    pub fn u16(&mut self) -> u16 {
        ((self.u8() as u16) << 8) | self.u8() as u16
    }
    pub fn u32(&mut self) -> u32 {
        ((self.u16() as u32) << 16) | self.u16() as u32
    }
    pub fn u64(&mut self) -> u64 {
        ((self.u32() as u64) << 32) | self.u32() as u64
    }
    pub fn below(&mut self, n: usize) -> usize {
        if n <= 1 {
            return 0;
        }
        if n <= 256 {
            (self.u8() as usize * n) >> 8
        } else {
            (self.u16() as usize * n) >> 16
        }
    }
    pub fn bool(&mut self) -> bool {
        self.u8() & 1 == 1
    }
    pub fn exhausted(&self) -> bool {
        self.pos >= self.data.len()
    }
    /// a length in 0..=max, biased to small values and to the maximum
    pub fn len(&mut self, max: usize) -> usize {
        match self.below(8) {
            0 => 0,
            1 => max,
            2 => max.saturating_sub(1),
            3 | 4 => self.below(std::cmp::min(max, 4) + 1),
            _ => self.below(max + 1),
        }
    }
    pub fn bytes(&mut self, n: usize) -> Vec<u8> {
        (0..n).map(|_| self.u8()).collect()
    }
    /// an integer with interesting magnitudes
    pub fn int64(&mut self) -> u64 {
        match self.below(8) {
            0 => 0,
            1 => 1,
            2 => u32::MAX as u64,
            3 => u32::MAX as u64 + 1,
            4 => u64::MAX,
            5 => self.u8() as u64,
            6 => self.u32() as u64,
            _ => self.u64(),
        }
    }
    pub fn int32(&mut self) -> u64 {
        match self.below(6) {
            0 => 0,
            1 => 1,
            2 => u32::MAX as u64,
            3 => self.u8() as u64,
            4 => self.u16() as u64,
            _ => self.u32() as u64,
        }
    }
}

const NAME_CHARS: &[&str] = &[
    "a", "b", "z", "0", "9", "/", ".", "-", "_", " ", "é", "ß", "日", "\u{1F600}", "A", "~",
];

/// a valid UTF-8 string of at most `max_bytes` bytes
pub fn string(t: &mut Tape, max_bytes: usize) -> String {
    let target = t.len(max_bytes);
    let mut s = String::new();
    while s.len() < target {
        let c = NAME_CHARS[t.below(NAME_CHARS.len())];
        if s.len() + c.len() > target {
            // fill up with ASCII so that exact boundary lengths (255) are reached
            while s.len() < target {
                s.push('x');
            }
            break;
        }
        s.push_str(c);
    }
    s
}

pub fn path(t: &mut Tape, max_bytes: usize) -> Utf8PathBuf {
    Utf8PathBuf::from(string(t, max_bytes))
}

pub fn variable_id_w(t: &mut Tape, width: usize) -> VariableID {
    match width {
        1 => VariableID::U8(t.int32() as u8),
        2 => VariableID::U16(t.int32() as u16),
        4 => VariableID::U32(t.int32() as u32),
        _ => VariableID::U64(t.int64()),
    }
}
pub const WIDTHS: [usize; 4] = [1, 2, 4, 8];
pub fn variable_id(t: &mut Tape) -> VariableID {
    let w = WIDTHS[t.below(4)];
    variable_id_w(t, w)
}

pub const CONDITIONS: [Condition; 14] = [
    Condition::NoError,
    Condition::PositiveLimitReached,
    Condition::KeepAliveLimitReached,
    Condition::InvalidTransmissionMode,
    Condition::FileStoreRejection,
    Condition::FileChecksumFailure,
    Condition::FilesizeError,
    Condition::NakLimitReached,
    Condition::InactivityDetected,
    Condition::InvalidFileStructure,
    Condition::CheckLimitReached,
    Condition::UnsupportedChecksumType,
    Condition::SuspendReceived,
    Condition::CancelReceived,
];
pub fn condition(t: &mut Tape) -> Condition {
    CONDITIONS[t.below(CONDITIONS.len())]
}
pub fn delivery_code(t: &mut Tape) -> DeliveryCode {
    if t.bool() {
        DeliveryCode::Incomplete
    } else {
        DeliveryCode::Complete
    }
}
pub fn file_status(t: &mut Tape) -> FileStatusCode {
    [
        FileStatusCode::Discarded,
        FileStatusCode::FileStoreRejection,
        FileStatusCode::Retained,
        FileStatusCode::Unreported,
    ][t.below(4)]
}
pub fn transaction_status(t: &mut Tape) -> TransactionStatus {
    [
        TransactionStatus::Undefined,
        TransactionStatus::Active,
        TransactionStatus::Terminated,
        TransactionStatus::Unrecognized,
    ][t.below(4)]
}

pub fn all_actions() -> Vec<FileStoreAction> {
    vec![
        FileStoreAction::CreateFile,
        FileStoreAction::DeleteFile,
        FileStoreAction::RenameFile,
        FileStoreAction::AppendFile,
        FileStoreAction::ReplaceFile,
        FileStoreAction::CreateDirectory,
        FileStoreAction::RemoveDirectory,
        FileStoreAction::DenyFile,
        FileStoreAction::DenyDirectory,
    ]
}

/// every (action, status) pair the enumerations define
pub fn all_statuses() -> Vec<FileStoreStatus> {
    use FileStoreStatus as S;
    let mut v = vec![];
    for s in [CreateFileStatus::Successful, CreateFileStatus::NotAllowed, CreateFileStatus::NotPerformed] {
        v.push(S::CreateFile(s));
    }
    for s in [
        DeleteFileStatus::Successful,
        DeleteFileStatus::FileDoesNotExist,
        DeleteFileStatus::DeleteNotAllowed,
        DeleteFileStatus::NotPerformed,
    ] {
        v.push(S::DeleteFile(s));
    }
    for s in [
        RenameStatus::Successful,
        RenameStatus::OldFilenameDoesNotExist,
        RenameStatus::NewFilenameAlreadyExists,
        RenameStatus::RenameNotAllowed,
        RenameStatus::NotPerformed,
    ] {
        v.push(S::RenameFile(s));
    }
    for s in [
        AppendStatus::Successful,
        AppendStatus::Filename1DoesNotExist,
        AppendStatus::Filename2DoesNotExist,
        AppendStatus::NotAllowed,
        AppendStatus::NotPerformed,
    ] {
        v.push(S::AppendFile(s));
    }
    for s in [
        ReplaceStatus::Successful,
        ReplaceStatus::Filename1DoesNotExist,
        ReplaceStatus::Filename2DoesNotExist,
        ReplaceStatus::NotAllowed,
        ReplaceStatus::NotPerformed,
    ] {
        v.push(S::ReplaceFile(s));
    }
    for s in [
        CreateDirectoryStatus::Successful,
        CreateDirectoryStatus::DirectoryCannotBeCreated,
        CreateDirectoryStatus::NotPerformed,
    ] {
        v.push(S::CreateDirectory(s));
    }
    for s in [
        RemoveDirectoryStatus::Successful,
        RemoveDirectoryStatus::DirectoryDoesNotExist,
        RemoveDirectoryStatus::DeleteNotAllowed,
        RemoveDirectoryStatus::NotPerformed,
    ] {
        v.push(S::RemoveDirectory(s));
    }
    for s in [DenyStatus::Successful, DenyStatus::NotAllowed, DenyStatus::NotPerformed] {
        v.push(S::DenyFile(s));
    }
    for s in [DenyStatus::Successful, DenyStatus::NotAllowed, DenyStatus::NotPerformed] {
        v.push(S::DenyDirectory(s));
    }
    v
}

pub fn filestore_request(t: &mut Tape, budget: usize) -> FileStoreRequest {
    let actions = all_actions();
    let action_code = actions[t.below(actions.len())].clone();
    let b = std::cmp::min(255, budget.saturating_sub(3) / 2);
    FileStoreRequest {
        action_code,
        first_filename: path(t, b),
        second_filename: path(t, b),
    }
}

/// `budget` bounds the encoded size (the response is a TLV body <= 255 bytes inside a Finished PDU)
pub fn filestore_response(t: &mut Tape, budget: usize) -> FileStoreResponse {
    let st = all_statuses();
    let action_and_status = st[t.below(st.len())];
    let b = budget.saturating_sub(4);
    let first = string(t, std::cmp::min(255, b));
    let b = b - first.len();
    let second = string(t, std::cmp::min(255, b));
    let b = b - second.len();
    let n = t.len(std::cmp::min(255, b));
    FileStoreResponse {
        action_and_status,
        first_filename: first.into(),
        second_filename: second.into(),
        filestore_message: t.bytes(n),
    }
}

pub fn message_to_user(t: &mut Tape, max: usize) -> MessageToUser {
    // sometimes a reserved CFDP user operation, sometimes opaque bytes
    if t.below(3) == 0 {
        let op = user_operation(t);
        let text = op.encode();
        if text.len() <= max {
            return MessageToUser { message_text: text };
        }
    }
    let n = t.len(max);
    MessageToUser {
        message_text: t.bytes(n),
    }
}

pub fn handler_code(t: &mut Tape) -> HandlerCode {
    [
        HandlerCode::NoticeOfCancellation,
        HandlerCode::NoticeOfSuspension,
        HandlerCode::IgnoreError,
        HandlerCode::AbandonTransaction,
    ][t.below(4)]
    .clone()
}

pub fn metadata_tlv(t: &mut Tape, budget: usize) -> MetadataTLV {
    match t.below(6) {
        0 => MetadataTLV::FileStoreRequest(filestore_request(t, std::cmp::min(budget, 300))),
        1 => MetadataTLV::FileStoreResponse(filestore_response(t, std::cmp::min(budget, 255))),
        2 => MetadataTLV::MessageToUser(message_to_user(t, std::cmp::min(255, budget.saturating_sub(2)))),
        3 => MetadataTLV::FaultHandlerOverride(FaultHandlerOverride {
            fault_handler_code: handler_code(t),
        }),
        4 => {
            let n = t.len(std::cmp::min(255, budget.saturating_sub(2)));
            MetadataTLV::FlowLabel(FlowLabel { value: t.bytes(n) })
        }
        _ => MetadataTLV::EntityID(variable_id(t)),
    }
}

pub fn fss(large: bool) -> FileSizeFlag {
    if large {
        FileSizeFlag::Large
    } else {
        FileSizeFlag::Small
    }
}
pub fn file_size(t: &mut Tape, large: bool) -> u64 {
    if large {
        t.int64()
    } else {
        t.int32()
    }
}

pub fn eof(t: &mut Tape, large: bool) -> EndOfFile {
    let condition = condition(t);
    EndOfFile {
        condition,
        checksum: t.int32() as u32,
        file_size: file_size(t, large),
        // fault location present iff an error condition
        fault_location: if condition == Condition::NoError {
            None
        } else {
            Some(variable_id(t))
        },
    }
}

pub fn finished(t: &mut Tape, budget: usize) -> Finished {
    let condition = condition(t);
    let mut filestore_response = vec![];
    let mut left = budget.saturating_sub(12);
    let n = t.below(4);
    for _ in 0..n {
        if left < 8 {
            break;
        }
        let r = filestore_response_(t, std::cmp::min(255, left - 2));
        left -= r.encoded_len() as usize + 2;
        filestore_response.push(r);
    }
    Finished {
        condition,
        delivery_code: delivery_code(t),
        file_status: file_status(t),
        filestore_response,
        fault_location: if condition == Condition::NoError {
            None
        } else if t.below(4) == 0 {
            // the implementation itself emits Finished(error) without a fault location
            None
        } else {
            Some(variable_id(t))
        },
    }
}
fn filestore_response_(t: &mut Tape, budget: usize) -> FileStoreResponse {
    filestore_response(t, budget)
}

pub fn ack(t: &mut Tape) -> PositiveAcknowledgePDU {
    let (directive, directive_subtype_code) = if t.bool() {
        (PDUDirective::Finished, ACKSubDirective::Finished)
    } else {
        (PDUDirective::EoF, ACKSubDirective::Other)
    };
    PositiveAcknowledgePDU {
        directive,
        directive_subtype_code,
        condition: condition(t),
        transaction_status: transaction_status(t),
    }
}

pub fn metadata(t: &mut Tape, large: bool, budget: usize) -> MetadataPDU {
    let closure_requested = t.bool();
    let checksum_type = if t.bool() {
        ChecksumType::Null
    } else {
        ChecksumType::Modular
    };
    let file_size = file_size(t, large);
    let mut left = budget.saturating_sub(12);
    let src = string(t, std::cmp::min(255, left));
    left -= src.len();
    let dst = string(t, std::cmp::min(255, left));
    left -= dst.len();
    let mut options = vec![];
    let n = t.below(5);
    for _ in 0..n {
        if left < 8 {
            break;
        }
        let o = metadata_tlv(t, left);
        let l = o.encoded_len() as usize;
        if l > left {
            break;
        }
        left -= l;
        options.push(o);
    }
    MetadataPDU {
        closure_requested,
        checksum_type,
        file_size,
        source_filename: src.into(),
        destination_filename: dst.into(),
        options,
    }
}

pub fn nak(t: &mut Tape, large: bool, budget: usize) -> NegativeAcknowledgmentPDU {
    let w = if large { 16 } else { 8 };
    let max_n = std::cmp::min(budget.saturating_sub(w + 1) / w, 40);
    let n = t.len(max_n);
    NegativeAcknowledgmentPDU {
        start_of_scope: file_size(t, large),
        end_of_scope: file_size(t, large),
        segment_requests: (0..n)
            .map(|_| SegmentRequestForm {
                start_offset: file_size(t, large),
                end_offset: file_size(t, large),
            })
            .collect(),
    }
}

pub fn operations(t: &mut Tape, large: bool, budget: usize) -> Operations {
    match t.below(7) {
        0 => Operations::EoF(eof(t, large)),
        1 => Operations::Finished(finished(t, budget)),
        2 => Operations::Ack(ack(t)),
        3 => Operations::Metadata(metadata(t, large, budget)),
        4 => Operations::Nak(nak(t, large, budget)),
        5 => Operations::Prompt(PromptPDU {
            nak_or_keep_alive: if t.bool() {
                NakOrKeepAlive::KeepAlive
            } else {
                NakOrKeepAlive::Nak
            },
        }),
        _ => Operations::KeepAlive(KeepAlivePDU {
            progress: file_size(t, large),
        }),
    }
}

pub fn file_data(t: &mut Tape, large: bool, segmented: bool, budget: usize) -> FileDataPDU {
    let offset = file_size(t, large);
    if segmented {
        let state = [
            RecordContinuationState::First,
            RecordContinuationState::Last,
            RecordContinuationState::Unsegmented,
            RecordContinuationState::Interim,
        ][t.below(4)]
        .clone();
        let m = t.len(std::cmp::min(63, budget.saturating_sub(10)));
        let segment_metadata = t.bytes(m);
        let left = budget.saturating_sub(9 + m);
        let n = data_len(t, left);
        FileDataPDU::Segmented(SegmentedFileData {
            record_continuation_state: state,
            segment_metadata,
            offset,
            file_data: t.bytes(n),
        })
    } else {
        let left = budget.saturating_sub(8);
        let n = data_len(t, left);
        FileDataPDU::Unsegmented(UnsegmentedFileData {
            offset,
            file_data: t.bytes(n),
        })
    }
}
fn data_len(t: &mut Tape, max: usize) -> usize {
    match t.below(10) {
        0 => 0,
        1 => max,
        2 => std::cmp::min(max, 1),
        3..=7 => t.below(std::cmp::min(max, 64) + 1),
        _ => t.below(std::cmp::min(max, 2048) + 1),
    }
}

/// A well-formed PDU. `flags` fixes the discrete header fields when given:
/// bit0 large, bit1 crc, bit2 mode, bit3 direction, bit4 segmentation control, bit5 segment metadata (file data only)
pub fn pdu_with(t: &mut Tape, flags: Option<u8>, widths: Option<(usize, usize)>) -> PDU {
    let flags = flags.unwrap_or_else(|| t.u8());
    let large = flags & 1 != 0;
    let crc = flags & 2 != 0;
    let (ew, sw) = widths.unwrap_or_else(|| (WIDTHS[t.below(4)], WIDTHS[t.below(4)]));
    // data field (incl. CRC) <= 65535; keep most PDUs small, a few near the limit
    // the whole PDU must fit the u16 that PDUEncode::encoded_len returns ("must fit in a u16 for PDUs")
    let header_len = 4 + 2 * ew + sw;
    let max_field = 65535 - header_len - if crc { 2 } else { 0 };
    let budget = match t.below(16) {
        0 => max_field,
        1 => 4096,
        _ => 700,
    };
    let is_data = t.below(3) == 0;
    let segmented = is_data && (flags & 32 != 0);
    let payload = if is_data {
        PDUPayload::FileData(file_data(t, large, segmented, budget))
    } else {
        PDUPayload::Directive(operations(t, large, budget))
    };
    let file_size_flag = fss(large);
    let header = PDUHeader {
        version: [U3::Zero, U3::One, U3::Two, U3::Three, U3::Four, U3::Five, U3::Six, U3::Seven]
            [if t.below(4) == 0 { t.below(8) } else { 1 }]
        .clone(),
        pdu_type: if is_data {
            PDUType::FileData
        } else {
            PDUType::FileDirective
        },
        direction: if flags & 8 != 0 {
            Direction::ToSender
        } else {
            Direction::ToReceiver
        },
        transmission_mode: if flags & 4 != 0 {
            TransmissionMode::Unacknowledged
        } else {
            TransmissionMode::Acknowledged
        },
        crc_flag: if crc {
            CRCFlag::Present
        } else {
            CRCFlag::NotPresent
        },
        large_file_flag: file_size_flag,
        pdu_data_field_length: payload.encoded_len(file_size_flag),
        segmentation_control: if flags & 16 != 0 {
            SegmentationControl::Preserved
        } else {
            SegmentationControl::NotPreserved
        },
        segment_metadata_flag: if segmented {
            SegmentedData::Present
        } else {
            SegmentedData::NotPresent
        },
        source_entity_id: variable_id_w(t, ew),
        transaction_sequence_number: variable_id_w(t, sw),
        destination_entity_id: variable_id_w(t, ew),
    };
    PDU { header, payload }
}

pub fn pdu(t: &mut Tape) -> PDU {
    pdu_with(t, None, None)
}

// ------------------------------------------------------------------------------------------------
// user operations

fn id_pair(t: &mut Tape) -> (VariableID, VariableID) {
    (variable_id(t), variable_id(t))
}

/// layout writer for types with private fields: the value can only be obtained by decoding
fn sfo_request_bytes(t: &mut Tape) -> Vec<u8> {
    let mut b = vec![];
    let first = ((t.below(4) as u8) << 6) | ((t.below(2) as u8) << 5) | ((t.below(2) as u8) << 4) | ((t.below(2) as u8) << 3);
    b.push(first);
    b.push(t.u8());
    let n = t.len(40);
    b.push(n as u8);
    b.extend(t.bytes(n));
    for _ in 0..2 {
        let id = variable_id(t);
        b.push(id.encoded_len() as u8);
        b.extend(id.to_be_bytes());
    }
    for _ in 0..2 {
        let s = string(t, 60);
        b.push(s.len() as u8);
        b.extend(s.as_bytes());
    }
    b
}
fn sfo_report_bytes(t: &mut Tape) -> Vec<u8> {
    let mut b = vec![];
    let n = t.len(40);
    b.push(n as u8);
    b.extend(t.bytes(n));
    for _ in 0..3 {
        let id = variable_id(t);
        b.push(id.encoded_len() as u8);
        b.extend(id.to_be_bytes());
    }
    b.push(t.u8());
    b.push(t.u8());
    let last = ((condition(t) as u8) << 4) | ((t.below(2) as u8) << 3) | ((t.below(2) as u8) << 2) | (t.below(4) as u8);
    b.push(last);
    b
}

pub fn user_operation(t: &mut Tape) -> UserOperation {
    use UserOperation as U;
    match t.below(26) {
        0 => {
            let (e, s) = id_pair(t);
            U::OriginatingTransactionIDMessage(OriginatingTransactionIDMessage {
                source_entity_id: e,
                transaction_sequence_number: s,
            })
        }
        1 => U::ProxyOperation(ProxyOperation::ProxyPutRequest(ProxyPutRequest {
            destination_entity_id: variable_id(t),
            source_filename: path(t, 100),
            destination_filename: path(t, 100),
        })),
        2 => {
            let n = t.len(200);
            U::ProxyOperation(ProxyOperation::ProxyMessageToUser(MessageToUser {
                message_text: t.bytes(n),
            }))
        }
        3 => U::ProxyOperation(ProxyOperation::ProxyFileStoreRequest(filestore_request(t, 240))),
        4 => U::ProxyOperation(ProxyOperation::ProxyFaultHandlerOverride(FaultHandlerOverride {
            fault_handler_code: handler_code(t),
        })),
        5 => U::ProxyOperation(ProxyOperation::ProxyTransmissionMode(if t.bool() {
            TransmissionMode::Unacknowledged
        } else {
            TransmissionMode::Acknowledged
        })),
        6 => {
            let n = t.len(200);
            U::ProxyOperation(ProxyOperation::ProxyFlowLabel(FlowLabel { value: t.bytes(n) }))
        }
        7 => {
            // private field: obtain through decode of the layout
            let b = vec![t.below(2) as u8];
            U::ProxyOperation(ProxyOperation::ProxySegmentationControl(
                ProxySegmentationControl::decode(&mut b.as_slice()).expect("layout writer: seg control"),
            ))
        }
        8 => U::ProxyOperation(ProxyOperation::ProxyPutCancel),
        9 => U::Response(UserResponse::ProxyPut(ProxyPutResponse {
            condition: condition(t),
            delivery_code: delivery_code(t),
            file_status: file_status(t),
        })),
        10 => U::Response(UserResponse::ProxyFileStore(filestore_response(t, 240))),
        11 => U::Response(UserResponse::DirectoryListing(DirectoryListingResponse {
            response_code: if t.bool() {
                ListingResponseCode::Unsuccessful
            } else {
                ListingResponseCode::Successful
            },
            directory_name: path(t, 100),
            directory_filename: path(t, 100),
        })),
        12 => {
            let (e, s) = id_pair(t);
            U::Response(UserResponse::RemoteStatusReport(RemoteStatusReportResponse {
                transaction_status: transaction_status(t),
                response_code: t.bool(),
                source_entity_id: e,
                transaction_sequence_number: s,
            }))
        }
        13 => {
            let (e, s) = id_pair(t);
            U::Response(UserResponse::RemoteResume(RemoteResumeResponse {
                suspend_indication: t.bool(),
                transaction_status: transaction_status(t),
                source_entity_id: e,
                transaction_sequence_number: s,
            }))
        }
        14 => {
            let (e, s) = id_pair(t);
            U::Response(UserResponse::RemoteSuspend(RemoteSuspendResponse {
                suspend_indication: t.bool(),
                transaction_status: transaction_status(t),
                source_entity_id: e,
                transaction_sequence_number: s,
            }))
        }
        15 => U::Request(UserRequest::DirectoryListing(DirectoryListingRequest {
            directory_name: path(t, 100),
            directory_filename: path(t, 100),
        })),
        16 => {
            let (e, s) = id_pair(t);
            U::Request(UserRequest::RemoteStatusReport(RemoteStatusReportRequest {
                source_entity_id: e,
                transaction_sequence_number: s,
                report_filename: path(t, 100),
            }))
        }
        17 => {
            let (e, s) = id_pair(t);
            U::Request(UserRequest::RemoteSuspend(RemoteSuspendRequest {
                source_entity_id: e,
                transaction_sequence_number: s,
            }))
        }
        18 => {
            let (e, s) = id_pair(t);
            U::Request(UserRequest::RemoteResume(RemoteResumeRequest {
                source_entity_id: e,
                transaction_sequence_number: s,
            }))
        }
        19 => {
            let b = sfo_request_bytes(t);
            U::SFORequest(SFORequest::decode(&mut b.as_slice()).expect("layout writer: SFORequest"))
        }
        20 => {
            let n = t.len(200);
            U::SFOMessageToUser(MessageToUser {
                message_text: t.bytes(n),
            })
        }
        21 => {
            let n = t.len(200);
            U::SFOFlowLabel(FlowLabel { value: t.bytes(n) })
        }
        22 => U::SFOFaultHandlerOverride(FaultHandlerOverride {
            fault_handler_code: handler_code(t),
        }),
        23 => U::SFOFileStoreRequest(filestore_request(t, 240)),
        24 => U::SFOFileStoreResponse(filestore_response(t, 240)),
        _ => {
            let b = sfo_report_bytes(t);
            U::SFOReport(SFOReport::decode(&mut b.as_slice()).expect("layout writer: SFOReport"))
        }
    }
}

pub fn report(t: &mut Tape) -> Report {
    Report {
        id: TransactionID(variable_id(t), variable_id(t)),
        state: [
            TransactionState::Active,
            TransactionState::Suspended,
            TransactionState::Terminated,
        ][t.below(3)],
        status: transaction_status(t),
        condition: condition(t),
    }
}

// ------------------------------------------------------------------------------------------------
// a fixed corpus of valid PDUs: every PDU type x {Small, Large} x {CRC off, on} x id widths

pub fn corpus_pdus() -> Vec<(String, PDU)> {
    let mut out = vec![];
    let mut seed: u32 = 0x1234_5678;
    let mut next = move || {
        seed = seed.wrapping_mul(1664525).wrapping_add(1013904223);
        (seed >> 24) as u8
    };
    for large in [false, true] {
        for crc in [false, true] {
            for (ew, sw) in [(1usize, 1usize), (2, 4), (8, 2), (4, 8)] {
                let f = fss(large);
                let ids = |k: u64| -> (VariableID, VariableID, VariableID) {
                    let mk = |w: usize, v: u64| match w {
                        1 => VariableID::U8(v as u8),
                        2 => VariableID::U16(v as u16),
                        4 => VariableID::U32(v as u32),
                        _ => VariableID::U64(v),
                    };
                    (mk(ew, 0x11 + k), mk(sw, 0x0102_0304_0506_0708 ^ k), mk(ew, 0x22 + k))
                };
                let big: u64 = if large { 0x0000_0001_0000_0010 } else { 0x0001_0010 };
                let mut payloads: Vec<(&str, PDUPayload, bool)> = vec![];
                payloads.push((
                    "eof",
                    PDUPayload::Directive(Operations::EoF(EndOfFile {
                        condition: Condition::NoError,
                        checksum: 0xDEAD_BEEF,
                        file_size: big,
                        fault_location: None,
                    })),
                    false,
                ));
                payloads.push((
                    "eof-cancel",
                    PDUPayload::Directive(Operations::EoF(EndOfFile {
                        condition: Condition::CancelReceived,
                        checksum: 7,
                        file_size: 12,
                        fault_location: Some(VariableID::U16(0x0a0b)),
                    })),
                    false,
                ));
                payloads.push((
                    "finished",
                    PDUPayload::Directive(Operations::Finished(Finished {
                        condition: Condition::NoError,
                        delivery_code: DeliveryCode::Complete,
                        file_status: FileStatusCode::Retained,
                        filestore_response: vec![
                            FileStoreResponse {
                                action_and_status: FileStoreStatus::RenameFile(RenameStatus::Successful),
                                first_filename: "a/b.txt".into(),
                                second_filename: "c.txt".into(),
                                filestore_message: vec![1, 2, 3],
                            },
                            FileStoreResponse {
                                action_and_status: FileStoreStatus::DenyDirectory(DenyStatus::NotPerformed),
                                first_filename: "d".into(),
                                second_filename: "".into(),
                                filestore_message: vec![],
                            },
                        ],
                        fault_location: None,
                    })),
                    false,
                ));
                payloads.push((
                    "finished-fault",
                    PDUPayload::Directive(Operations::Finished(Finished {
                        condition: Condition::FileChecksumFailure,
                        delivery_code: DeliveryCode::Incomplete,
                        file_status: FileStatusCode::Discarded,
                        filestore_response: vec![],
                        fault_location: Some(VariableID::U8(3)),
                    })),
                    false,
                ));
                payloads.push((
                    "ack-eof",
                    PDUPayload::Directive(Operations::Ack(PositiveAcknowledgePDU {
                        directive: PDUDirective::EoF,
                        directive_subtype_code: ACKSubDirective::Other,
                        condition: Condition::NoError,
                        transaction_status: TransactionStatus::Active,
                    })),
                    true,
                ));
                payloads.push((
                    "ack-fin",
                    PDUPayload::Directive(Operations::Ack(PositiveAcknowledgePDU {
                        directive: PDUDirective::Finished,
                        directive_subtype_code: ACKSubDirective::Finished,
                        condition: Condition::CancelReceived,
                        transaction_status: TransactionStatus::Terminated,
                    })),
                    false,
                ));
                payloads.push((
                    "metadata",
                    PDUPayload::Directive(Operations::Metadata(MetadataPDU {
                        closure_requested: true,
                        checksum_type: ChecksumType::Modular,
                        file_size: big,
                        source_filename: "src/file.bin".into(),
                        destination_filename: "dst/file.bin".into(),
                        options: vec![
                            MetadataTLV::FileStoreRequest(FileStoreRequest {
                                action_code: FileStoreAction::AppendFile,
                                first_filename: "x".into(),
                                second_filename: "y".into(),
                            }),
                            MetadataTLV::MessageToUser(MessageToUser {
                                message_text: b"hello".to_vec(),
                            }),
                            MetadataTLV::FlowLabel(FlowLabel { value: vec![9, 8] }),
                            MetadataTLV::FaultHandlerOverride(FaultHandlerOverride {
                                fault_handler_code: HandlerCode::IgnoreError,
                            }),
                            MetadataTLV::EntityID(VariableID::U32(77)),
                        ],
                    })),
                    false,
                ));
                payloads.push((
                    "metadata-min",
                    PDUPayload::Directive(Operations::Metadata(MetadataPDU {
                        closure_requested: false,
                        checksum_type: ChecksumType::Null,
                        file_size: 0,
                        source_filename: "".into(),
                        destination_filename: "".into(),
                        options: vec![],
                    })),
                    false,
                ));
                payloads.push((
                    "nak",
                    PDUPayload::Directive(Operations::Nak(NegativeAcknowledgmentPDU {
                        start_of_scope: 0,
                        end_of_scope: big,
                        segment_requests: vec![
                            SegmentRequestForm { start_offset: 0, end_offset: 0 },
                            SegmentRequestForm { start_offset: 16, end_offset: 48 },
                            SegmentRequestForm { start_offset: 0x100, end_offset: big },
                        ],
                    })),
                    true,
                ));
                payloads.push((
                    "prompt",
                    PDUPayload::Directive(Operations::Prompt(PromptPDU {
                        nak_or_keep_alive: NakOrKeepAlive::KeepAlive,
                    })),
                    false,
                ));
                payloads.push((
                    "keepalive",
                    PDUPayload::Directive(Operations::KeepAlive(KeepAlivePDU { progress: big - 1 })),
                    true,
                ));
                payloads.push((
                    "filedata",
                    PDUPayload::FileData(FileDataPDU::Unsegmented(UnsegmentedFileData {
                        offset: big,
                        file_data: (0..37).map(|_| next()).collect(),
                    })),
                    false,
                ));
                payloads.push((
                    "filedata-seg",
                    PDUPayload::FileData(FileDataPDU::Segmented(SegmentedFileData {
                        record_continuation_state: RecordContinuationState::First,
                        segment_metadata: vec![0xAA, 0xBB, 0xCC],
                        offset: 5,
                        file_data: (0..21).map(|_| next()).collect(),
                    })),
                    false,
                ));
                for (k, (name, payload, to_sender)) in payloads.into_iter().enumerate() {
                    let (src, seq, dst) = ids(k as u64);
                    let is_data = matches!(payload, PDUPayload::FileData(_));
                    let segmented = matches!(payload, PDUPayload::FileData(FileDataPDU::Segmented(_)));
                    let header = PDUHeader {
                        version: U3::One,
                        pdu_type: if is_data { PDUType::FileData } else { PDUType::FileDirective },
                        direction: if to_sender { Direction::ToSender } else { Direction::ToReceiver },
                        transmission_mode: if k % 5 == 4 {
                            TransmissionMode::Unacknowledged
                        } else {
                            TransmissionMode::Acknowledged
                        },
                        crc_flag: if crc { CRCFlag::Present } else { CRCFlag::NotPresent },
                        large_file_flag: f,
                        pdu_data_field_length: payload.encoded_len(f),
                        segmentation_control: SegmentationControl::NotPreserved,
                        segment_metadata_flag: if segmented {
                            SegmentedData::Present
                        } else {
                            SegmentedData::NotPresent
                        },
                        source_entity_id: src,
                        transaction_sequence_number: seq,
                        destination_entity_id: dst,
                    };
                    out.push((
                        format!(
                            "{name}/{}{}/ids{ew}-{sw}",
                            if large { "large" } else { "small" },
                            if crc { "+crc" } else { "" }
                        ),
                        PDU { header, payload },
                    ));
                }
            }
        }
    }
    out
}
