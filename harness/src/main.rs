//! cfdp-verif — property-based testing / fuzzing harness for ASU-cubesat/cfdp-rs.
//! See /verif/DESIGN.md. Usage:
//!   cfdp-verif check <ID> <quick|thorough>
//!   cfdp-verif replay <file.json>
use cfdp_verif::common::*;
use cfdp_verif::props;

fn main() {
    let args: Vec<String> = std::env::args().collect();
    install_panic_hook();
    let seed: u64 = std::env::var("VERIF_SEED")
        .ok()
        .and_then(|s| s.parse().ok())
        .unwrap_or(1);
    let code = match args.get(1).map(|s| s.as_str()) {
        Some("check") => {
            let id = args.get(2).cloned().unwrap_or_default();
            let tier = match args.get(3).map(|s| s.as_str()) {
                Some("thorough") => Tier::Thorough,
                _ => Tier::Quick,
            };
            init_scratch();
            start_watchdog(300);
            let mut ctx = Ctx::new(&id, tier, seed);
            if !props::run_property(&mut ctx) {
                eprintln!("unknown property {id}");
                cleanup_scratch();
                std::process::exit(2);
            }
            let c = ctx.finish();
            cleanup_scratch();
            c
        }
        Some("replay") => {
            let path = args.get(2).cloned().unwrap_or_default();
            let mut body: serde_json::Value = match std::fs::read_to_string(&path)
                .map_err(|e| e.to_string())
                .and_then(|s| serde_json::from_str(&s).map_err(|e| e.to_string()))
            {
                Ok(v) => v,
                Err(e) => {
                    eprintln!("cannot read replay {path}: {e}");
                    std::process::exit(2);
                }
            };
            body["__path"] = serde_json::Value::String(path.clone());
            init_scratch();
            let c = props::replay(&body);
            cleanup_scratch();
            c
        }
        Some("gen-corpus") => {
            // seed corpora for the libFuzzer targets: valid encodings of every PDU type and of their parts
            let dir = args.get(2).cloned().unwrap_or_else(|| "/verif/fuzz/corpus".into());
            let mut n = 0;
            let d = format!("{dir}/decode");
            std::fs::create_dir_all(&d).unwrap();
            for (t, enc) in cfdp_verif::props::c06::seed_inputs() {
                let ti = cfdp_verif::props::c06::TARGETS.iter().position(|x| *x == t).unwrap_or(0) as u8;
                let mut b = vec![ti];
                b.extend(enc);
                std::fs::write(format!("{d}/{n:05}"), b).unwrap();
                n += 1;
            }
            let d = format!("{dir}/roundtrip");
            std::fs::create_dir_all(&d).unwrap();
            for i in 0..200u64 {
                let mut b = vec![(i % 8) as u8];
                b.extend(Prng::new(i).bytes((i % 97) as usize));
                std::fs::write(format!("{d}/{i:05}"), b).unwrap();
            }
            let d = format!("{dir}/crc_flip");
            std::fs::create_dir_all(&d).unwrap();
            for i in 0..100u64 {
                std::fs::write(format!("{d}/{i:05}"), Prng::new(i ^ 0xC15).bytes(4 + (i % 16) as usize)).unwrap();
            }
            println!("corpus written to {dir}");
            0
        }
        Some("demo") => {
            // print the trace of one fault-free transfer (smoke test of the simulation engine)
            use cfdp_verif::sim::*;
            init_scratch();
            let mut cfg = CfgSpec::default();
            cfg.closure = args.iter().any(|a| a == "closure");
            cfg.crc = args.iter().any(|a| a == "crc");
            let mut sc = Scenario::two_entities(cfg.clone(), cfg);
            let size: u32 = args.get(2).and_then(|s| s.parse().ok()).unwrap_or(100);
            sc.puts.push(PutSpec {
                at_ms: 0,
                from: 0,
                to: 1,
                unack: args.iter().any(|a| a == "unack"),
                file: Some(FileSpec { size, class: ContentClass::Random, seed: 5 }),
                src_name: "src.bin".into(),
                dst_name: "dst.bin".into(),
                requests: vec![],
                messages: vec![],
                forget: false,
            });
            if let Some(d) = args.iter().position(|a| a == "drop") {
                let dir: usize = args[d + 1].parse().unwrap();
                let ord: u32 = args[d + 2].parse().unwrap();
                sc.faults.push(Fault { from: dir, to: 1 - dir, ordinal: ord, kind: FaultKind::Drop });
            }
            if args.iter().any(|a| a == "nofin") {
                sc.blackouts.push(Blackout::of_kinds(1, 0, &[Kind::Finished]));
                sc.horizon_ms = 400_000;
            }
            if args.iter().any(|a| a == "health") {
                sc.health_check = true;
            }
            if let Some(d) = args.iter().position(|a| a == "dump") {
                let body = serde_json::json!({"property": args[d + 1], "part": args[d + 2], "case": {"sc": sc}});
                std::fs::write(&args[d + 3], serde_json::to_string_pretty(&body).unwrap()).unwrap();
            }
            let t = std::time::Instant::now();
            let tr = run_scenario(&sc);
            println!("{}", tr.render(400));
            let src = sc.puts[0].file.as_ref().unwrap().bytes();
            println!("destination equals source: {}", tr.file_at(1, "dst.bin").map(|d| d == src).unwrap_or(false));
            println!("virtual end {} ms, wall {:?}, {} datagrams", tr.end_ms, t.elapsed(), tr.dgrams.len());
            cleanup_scratch();
            0
        }
        Some("c08script") => {
            // debugging aid: cfdp-verif c08script <nsegs> <withheld-mask> <order> <immediate 0|1> <delay_ms> <pause_before|-> <seed>
            init_scratch();
            let a: Vec<u64> = args[2..].iter().map(|x| x.parse().unwrap_or(u64::MAX)).collect();
            let script = cfdp_verif::props::c08::Script {
                nsegs: a[0] as u32,
                seg: 16,
                large: false,
                nak: cfdp_verif::sim::NakSpec { immediate: a[3] == 1, delay_ms: a[4] },
                withheld: a[1] as u32,
                order: a[2] as u8,
                answer: 0,
                prompt_before_eof: false,
                last_short: false,
                seed: a[6],
                crc: false,
                pause_before: if a[5] == u64::MAX { None } else { Some(a[5] as u32) },
                pause_ms: 1980,
                yields: a.get(7).cloned().unwrap_or(0) as u8,
            };
            let case = cfdp_verif::props::c08::build(&script);
            let tr = cfdp_verif::sim::run_scenario(&case.sc);
            println!("{}", tr.render(300));
            println!("verdict: {:?}", cfdp_verif::props::c08::check_naks(&case, &tr).map_err(|f| (f.key, f.msg.lines().next().unwrap_or("").to_string())));
            cleanup_scratch();
            0
        }
        Some("trace") => {
            // print the trace of the scenario stored in a replay file (any E2/E3 part)
            init_scratch();
            let body: serde_json::Value = serde_json::from_str(&std::fs::read_to_string(&args[2]).expect("read")).expect("json");
            let sc: cfdp_verif::sim::Scenario = serde_json::from_value(body["case"]["sc"].clone()).expect("case.sc is not a scenario");
            let tr = cfdp_verif::sim::run_scenario(&sc);
            println!("{}", tr.render(600));
            cleanup_scratch();
            0
        }
        _ => {
            eprintln!("usage: cfdp-verif check <ID> <quick|thorough> | replay <file>");
            2
        }
    };
    std::process::exit(code);
}
