//! E2/E3 — deterministic whole-daemon simulation.
//!
//! The real `Daemon` (one per present entity) runs on a paused-clock current-thread tokio runtime
//! over an in-memory link. A scenario fixes everything: configurations, files, puts, the fault
//! script of the link, user commands and injected PDUs (the "puppet" peer of E3 is an entity
//! without daemon plus injected PDUs). The run yields a trace that the property oracles inspect.
#![allow(dead_code)]

use std::collections::{BinaryHeap, HashMap};
use std::io::{Error as IoError, ErrorKind};
use std::path::PathBuf;
use std::sync::atomic::{AtomicBool, Ordering as AtomicOrdering};
use std::sync::{Arc, Mutex};
use std::time::Duration;

use async_trait::async_trait;
use camino::Utf8PathBuf;
use cfdp_core::daemon::{EntityConfig, Indication, NakProcedure, PutRequest, Report, UserPrimitive};
use cfdp_core::filestore::{ChecksumType, NativeFileStore};
use cfdp_core::pdu::*;
use cfdp_core::transaction::{TransactionID, TransactionState};
use cfdp_daemon::transport::PDUTransport;
use cfdp_daemon::Daemon;
use serde::{Deserialize, Serialize};
use tokio::sync::mpsc::{unbounded_channel, UnboundedReceiver, UnboundedSender};
use tokio::sync::oneshot;
use tokio::time::Instant;

use crate::common::*;

// ------------------------------------------------------------------------------------------------
// scenario

#[derive(Clone, Debug, Serialize, Deserialize, PartialEq, Eq, Hash)]
pub struct NakSpec {
    pub immediate: bool,
    pub delay_ms: u64,
}

#[derive(Clone, Debug, Serialize, Deserialize, PartialEq, Eq, Hash)]
pub struct CfgSpec {
    pub seg: u16,
    pub max_count: u32,
    pub ti: i64,
    pub ta: i64,
    pub tn: i64,
    pub crc: bool,
    pub closure: bool,
    pub null_checksum: bool,
    pub nak: NakSpec,
    /// (condition code, action: 0 cancel, 1 suspend, 2 ignore, 3 abandon)
    pub handlers: Vec<(u8, u8)>,
}
impl Default for CfgSpec {
    fn default() -> Self {
        CfgSpec {
            seg: 32,
            max_count: 3,
            ti: 5,
            ta: 2,
            tn: 2,
            crc: false,
            closure: false,
            null_checksum: false,
            nak: NakSpec {
                immediate: false,
                delay_ms: 0,
            },
            handlers: vec![],
        }
    }
}

#[derive(Clone, Debug, Serialize, Deserialize, PartialEq, Eq, Hash)]
pub struct EntitySpec {
    pub id: u64,
    /// 1, 2, 4 or 8
    pub id_width: u8,
    /// false: no daemon runs for this entity (puppet / sink); datagrams addressed to it are only recorded
    pub present: bool,
    pub cfg: CfgSpec,
    pub start_seq: u64,
    pub seq_width: u8,
}

#[derive(Clone, Debug, Serialize, Deserialize, PartialEq, Eq, Hash)]
pub enum ContentClass {
    Random,
    Zero,
    /// alternate segments: zero, random, zero, ...
    ZeroRuns { seg: u16 },
    /// every 8-byte block is (w, 2^32 - w): each aligned block sums to 0 mod 2^32, so losing whole
    /// segments (multiple of 8) leaves the modular checksum unchanged without being all zero
    Neutral,
    /// random, but the last `n` bytes are zero
    ZeroTail { n: u32 },
    /// every byte carries the tag (cross-wiring detection)
    Tag { tag: u8 },
}

#[derive(Clone, Debug, Serialize, Deserialize, PartialEq, Eq, Hash)]
pub struct FileSpec {
    pub size: u32,
    pub class: ContentClass,
    pub seed: u64,
}
impl FileSpec {
    pub fn bytes(&self) -> Vec<u8> {
        let n = self.size as usize;
        let mut rng = Prng::new(self.seed);
        match &self.class {
            ContentClass::Random => rng.bytes(n),
            ContentClass::Zero => vec![0; n],
            ContentClass::ZeroRuns { seg } => {
                let mut v = rng.bytes(n);
                let seg = std::cmp::max(1, *seg as usize);
                for (i, b) in v.iter_mut().enumerate() {
                    if (i / seg) % 2 == 0 {
                        *b = 0;
                    }
                }
                v
            }
            ContentClass::Neutral => {
                let mut v = Vec::with_capacity(n + 8);
                while v.len() < n {
                    let w = (rng.next() as u32) | 1;
                    v.extend_from_slice(&w.to_be_bytes());
                    v.extend_from_slice(&(0u32.wrapping_sub(w)).to_be_bytes());
                }
                v.truncate(n);
                v
            }
            ContentClass::ZeroTail { n: tail } => {
                let mut v = rng.bytes(n);
                let t = std::cmp::min(*tail as usize, n);
                for b in &mut v[n - t..] {
                    *b = 0;
                }
                v
            }
            ContentClass::Tag { tag } => {
                let mut v = vec![*tag; n];
                // a little structure so that offsets matter
                for (i, b) in v.iter_mut().enumerate() {
                    if i % 16 == 15 {
                        *b = (i / 16) as u8;
                    }
                }
                v
            }
        }
    }
}

#[derive(Clone, Debug, Serialize, Deserialize, PartialEq, Eq, Hash)]
pub struct ReqSpec {
    /// FileStoreAction code 0..=8
    pub action: u8,
    pub first: String,
    pub second: String,
}
impl ReqSpec {
    pub fn to_request(&self) -> FileStoreRequest {
        FileStoreRequest {
            action_code: action_from(self.action),
            first_filename: self.first.clone().into(),
            second_filename: self.second.clone().into(),
        }
    }
}
pub fn action_from(code: u8) -> FileStoreAction {
    match code % 9 {
        0 => FileStoreAction::CreateFile,
        1 => FileStoreAction::DeleteFile,
        2 => FileStoreAction::RenameFile,
        3 => FileStoreAction::AppendFile,
        4 => FileStoreAction::ReplaceFile,
        5 => FileStoreAction::CreateDirectory,
        6 => FileStoreAction::RemoveDirectory,
        7 => FileStoreAction::DenyFile,
        _ => FileStoreAction::DenyDirectory,
    }
}

#[derive(Clone, Debug, Serialize, Deserialize, PartialEq, Eq, Hash)]
pub struct PutSpec {
    pub at_ms: u64,
    pub from: usize,
    pub to: usize,
    pub unack: bool,
    /// None: no file (filestore-request-only transaction)
    pub file: Option<FileSpec>,
    pub src_name: String,
    pub dst_name: String,
    pub requests: Vec<ReqSpec>,
    pub messages: Vec<Vec<u8>>,
    /// fire and forget: the user drops the channel on which the daemon answers the Put with the transaction id
    #[serde(default)]
    pub forget: bool,
}

#[derive(Clone, Debug, Serialize, Deserialize, PartialEq, Eq, Hash)]
pub enum FaultKind {
    Drop,
    /// deliver twice, the copy `extra_ms` later
    Dup { extra_ms: u64 },
    /// deliver `ms` later than normal (reordering when it passes later datagrams)
    Delay { ms: u64 },
    /// flip one bit (position as a fraction of the datagram, in 1/65536)
    Corrupt { frac: u16 },
    /// flip one bit inside the file-data field of a File Data PDU (other PDUs pass unharmed): what a link without the CRC
    /// option lets through and only the file checksum can notice
    CorruptData { frac: u16 },
}

#[derive(Clone, Debug, Serialize, Deserialize, PartialEq, Eq, Hash)]
pub struct Fault {
    pub from: usize,
    pub to: usize,
    /// per-direction ordinal of the datagram as emitted
    pub ordinal: u32,
    pub kind: FaultKind,
}

#[derive(Clone, Debug, Serialize, Deserialize, PartialEq, Eq, Hash)]
pub struct Blackout {
    pub from: usize,
    pub to: usize,
    /// drop every datagram with ordinal >= this
    pub from_ordinal: Option<u32>,
    /// or submitted in [from_ms, until_ms)
    pub from_ms: Option<u64>,
    pub until_ms: Option<u64>,
    /// restrict to these PDU kinds (bit = Kind as u32); 0 = every datagram.
    /// Models a peer that never sends (or a link that never passes) a certain kind of PDU.
    #[serde(default)]
    pub kind_mask: u32,
    /// drop only the first `limit` matching datagrams (0 = all of them)
    #[serde(default)]
    pub limit: u32,
}
impl Blackout {
    pub fn first_of_kind(from: usize, to: usize, kind: Kind, n: u32) -> Self {
        Blackout { from, to, from_ordinal: Some(0), from_ms: None, until_ms: None, kind_mask: 1 << (kind as u32), limit: n }
    }
    pub fn from_ordinal(from: usize, to: usize, ord: u32) -> Self {
        Blackout { from, to, from_ordinal: Some(ord), from_ms: None, until_ms: None, kind_mask: 0, limit: 0 }
    }
    pub fn of_kinds(from: usize, to: usize, kinds: &[Kind]) -> Self {
        Blackout { from, to, from_ordinal: Some(0), from_ms: None, until_ms: None, kind_mask: kinds.iter().fold(0, |m, k| m | (1 << (*k as u32))), limit: 0 }
    }
    pub fn window(from: usize, to: usize, a: u64, z: Option<u64>) -> Self {
        Blackout { from, to, from_ordinal: None, from_ms: Some(a), until_ms: z, kind_mask: 0, limit: 0 }
    }
}

#[derive(Clone, Debug, Serialize, Deserialize, PartialEq, Eq, Hash)]
pub enum Trigger {
    AtMs(u64),
    /// when the link receives datagram number `ordinal` of direction from->to, plus a delay
    OnOrdinal { from: usize, to: usize, ordinal: u32, delay_ms: u64 },
    /// when the first indication of this kind for transaction `put` is observed at `entity`, plus a delay
    /// kinds: "finished", "eof-sent", "eof-recv", "metadata-recv", "suspended", "resumed", "fault"
    OnIndication { entity: usize, put: usize, kind: String, delay_ms: u64 },
}

#[derive(Clone, Debug, Serialize, Deserialize, PartialEq, Eq, Hash)]
pub enum ActionKind {
    Cancel { put: usize },
    Suspend { put: usize },
    Resume { put: usize },
    PromptNak { put: usize },
    PromptKeepAlive { put: usize },
    Report { put: usize },
    /// hand these bytes to `to`'s transport as if they had arrived from `as_from`
    Inject { to: usize, as_from: usize, bytes: Vec<u8> },
    /// the owner of the source file of a Put rewrites it in place while the transfer runs: same length, every byte changed
    RewriteSource { put: usize },
}

#[derive(Clone, Debug, Serialize, Deserialize, PartialEq, Eq, Hash)]
pub struct Action {
    pub trigger: Trigger,
    /// the entity whose user issues the command (ignored for Inject)
    pub entity: usize,
    pub kind: ActionKind,
}

#[derive(Clone, Debug, Serialize, Deserialize, PartialEq, Eq, Hash)]
pub struct Scenario {
    /// seed of the tokio scheduler (start branch of every select!)
    pub seed: u64,
    /// per-datagram serialisation delay at the sending transport
    pub tau_ms: u64,
    /// link latency
    pub lat_ms: u64,
    pub entities: Vec<EntitySpec>,
    pub puts: Vec<PutSpec>,
    pub faults: Vec<Fault>,
    pub blackouts: Vec<Blackout>,
    pub actions: Vec<Action>,
    /// the run ends at this virtual time at the latest
    pub horizon_ms: u64,
    /// files (relative name, content) present in an entity's filestore before the run: (entity, name, bytes)
    pub preload: Vec<(usize, String, Vec<u8>)>,
    /// after the horizon: heal the link and check that each present daemon still serves a fresh Put
    pub health_check: bool,
    /// stop as soon as every transaction is gone and the link has been quiet for 2 s
    pub stop_when_quiet: bool,
    /// hook H5: every transaction task yields this many times before each look at its timers and mailbox (0 = as is); with 2..4
    /// a PDU delivered in the instant of a timer expiry is found ready together with the timer and the seeded select! picks
    #[serde(default)]
    pub yields: u8,
}

impl Scenario {
    pub fn two_entities(cfg_a: CfgSpec, cfg_b: CfgSpec) -> Scenario {
        Scenario {
            seed: 1,
            tau_ms: 1,
            lat_ms: 2,
            entities: vec![
                EntitySpec {
                    id: 1,
                    id_width: 2,
                    present: true,
                    cfg: cfg_a,
                    start_seq: 7,
                    seq_width: 2,
                },
                EntitySpec {
                    id: 2,
                    id_width: 2,
                    present: true,
                    cfg: cfg_b,
                    start_seq: 100,
                    seq_width: 2,
                },
            ],
            puts: vec![],
            faults: vec![],
            blackouts: vec![],
            actions: vec![],
            horizon_ms: 120_000,
            preload: vec![],
            health_check: false,
            stop_when_quiet: true,
            yields: 0,
        }
    }

    pub fn entity_id(&self, i: usize) -> VariableID {
        let e = &self.entities[i];
        vid(e.id, e.id_width)
    }

    /// the transaction id the k-th put gets: the source entity's sequence counter starts at start_seq and is
    /// incremented per Put in the order the puts reach the daemon (= order of at_ms, then index)
    pub fn put_id(&self, k: usize) -> TransactionID {
        let from = self.puts[k].from;
        let mut order: Vec<usize> = (0..self.puts.len()).filter(|j| self.puts[*j].from == from).collect();
        order.sort_by_key(|j| (self.puts[*j].at_ms, *j));
        let pos = order.iter().position(|j| *j == k).unwrap() as u64;
        let e = &self.entities[from];
        let mut seq = vid(e.start_seq, e.seq_width);
        for _ in 0..pos {
            seq.increment();
        }
        TransactionID(self.entity_id(from), seq)
    }
}

pub fn vid(v: u64, width: u8) -> VariableID {
    match width {
        1 => VariableID::U8(v as u8),
        2 => VariableID::U16(v as u16),
        4 => VariableID::U32(v as u32),
        _ => VariableID::U64(v),
    }
}

pub fn condition_from(code: u8) -> Condition {
    use num_from::from_u8;
    from_u8(code)
}
mod num_from {
    use cfdp_core::pdu::Condition;
    pub fn from_u8(c: u8) -> Condition {
        match c {
            0 => Condition::NoError,
            1 => Condition::PositiveLimitReached,
            2 => Condition::KeepAliveLimitReached,
            3 => Condition::InvalidTransmissionMode,
            4 => Condition::FileStoreRejection,
            5 => Condition::FileChecksumFailure,
            6 => Condition::FilesizeError,
            7 => Condition::NakLimitReached,
            8 => Condition::InactivityDetected,
            9 => Condition::InvalidFileStructure,
            10 => Condition::CheckLimitReached,
            11 => Condition::UnsupportedChecksumType,
            14 => Condition::SuspendReceived,
            _ => Condition::CancelReceived,
        }
    }
}

pub fn entity_config(c: &CfgSpec) -> EntityConfig {
    let mut fault_handler_override = HashMap::new();
    for (cond, act) in &c.handlers {
        let a = match act {
            0 => FaultHandlerAction::Cancel,
            1 => FaultHandlerAction::Suspend,
            2 => FaultHandlerAction::Ignore,
            _ => FaultHandlerAction::Abandon,
        };
        fault_handler_override.insert(condition_from(*cond), a);
    }
    EntityConfig {
        fault_handler_override,
        file_size_segment: c.seg,
        default_transaction_max_count: c.max_count,
        inactivity_timeout: c.ti,
        ack_timeout: c.ta,
        nak_timeout: c.tn,
        crc_flag: if c.crc { CRCFlag::Present } else { CRCFlag::NotPresent },
        closure_requested: c.closure,
        checksum_type: if c.null_checksum {
            ChecksumType::Null
        } else {
            ChecksumType::Modular
        },
        nak_procedure: if c.nak.immediate {
            NakProcedure::Immediate(Duration::from_millis(c.nak.delay_ms))
        } else {
            NakProcedure::Deferred(Duration::from_millis(c.nak.delay_ms))
        },
    }
}

// ------------------------------------------------------------------------------------------------
// trace

#[derive(Clone, Debug, PartialEq)]
pub enum Fate {
    /// delivered at these times (several for duplicates)
    Delivered(Vec<u64>),
    Dropped(&'static str),
    /// addressed to an entity without daemon: recorded only
    Sink,
    UnknownDestination,
}

#[derive(Clone, Debug)]
pub struct Dgram {
    /// time the link received it from the sending transport (or injection time)
    pub t: u64,
    pub from: usize,
    pub to: usize,
    pub ord: u32,
    pub bytes: Vec<u8>,
    pub pdu: Option<PDU>,
    pub fate: Fate,
    pub injected: bool,
    pub corrupted: bool,
}

#[derive(Clone, Debug)]
pub struct IndRec {
    pub t: u64,
    pub entity: usize,
    pub ind: Indication,
}

#[derive(Clone, Debug)]
pub struct Probe {
    pub t: u64,
    pub entity: usize,
    pub id: TransactionID,
    pub alive: bool,
    pub report: Option<Report>,
}

#[derive(Clone, Debug)]
pub struct FileSnap {
    /// index (into Trace::inds) of the Finished indication this snapshot was taken for
    pub ind_idx: usize,
    pub t: u64,
    pub entity: usize,
    pub put: usize,
    /// content of the destination path when the Finished indication was observed (None: does not exist)
    pub content: Option<Vec<u8>>,
}

#[derive(Clone, Debug, Default)]
pub struct Trace {
    pub dgrams: Vec<Dgram>,
    /// (time, to, index into dgrams)
    pub deliveries: Vec<(u64, usize, usize)>,
    pub inds: Vec<IndRec>,
    /// (time, entity, description)
    pub cmds: Vec<(u64, usize, String)>,
    pub probes: Vec<Probe>,
    pub snaps: Vec<FileSnap>,
    pub panics: Vec<String>,
    /// ids returned by the daemon for the Put requests (None: no answer)
    pub put_ids: Vec<Option<TransactionID>>,
    pub end_ms: u64,
    pub budget_exceeded: bool,
    /// daemon task ended before the end of the run (entity -> how)
    pub daemon_died: Vec<(usize, String)>,
    /// health check result per present entity (None when not requested)
    pub health: Vec<(usize, bool)>,
    /// root directory of each entity's filestore (valid until the next scenario of this worker)
    pub roots: Vec<PathBuf>,
    /// transaction tasks still alive at the final probes (hook H4) minus the transactions the daemons still answer for:
    /// tasks the daemon has lost track of (no PDU and no user request can reach them any more)
    pub orphan_tasks: i64,
}

pub const PDU_BUDGET: usize = 10_000;

// ------------------------------------------------------------------------------------------------
// the link

struct Submission {
    from: usize,
    dest: VariableID,
    bytes: Vec<u8>,
}

struct SimTransport {
    me: usize,
    tau: Duration,
    sub_tx: UnboundedSender<Submission>,
    inbox: UnboundedReceiver<Vec<u8>>,
}

#[async_trait]
impl PDUTransport for SimTransport {
    async fn request(&mut self, destination: VariableID, pdu: PDU) -> Result<(), IoError> {
        // encode exactly as UdpTransport does
        let bytes = pdu.encode();
        if !self.tau.is_zero() {
            tokio::time::sleep(self.tau).await;
        }
        self.sub_tx
            .send(Submission {
                from: self.me,
                dest: destination,
                bytes,
            })
            .map_err(|_| IoError::from(ErrorKind::ConnectionAborted))
    }

    async fn receive(&mut self) -> Result<PDU, IoError> {
        match self.inbox.recv().await {
            Some(bytes) => PDU::decode(&mut bytes.as_slice()).map_err(|e| IoError::new(ErrorKind::InvalidData, e.to_string())),
            None => {
                // the link is gone: never resolve (the real socket would simply stay silent)
                std::future::pending::<()>().await;
                unreachable!()
            }
        }
    }
}

#[derive(PartialEq, Eq, PartialOrd, Ord)]
enum Event {
    Deliver { to: usize, dgram: usize },
    Act { idx: usize },
    IssuePut { idx: usize },
}

struct Shared {
    trace: Trace,
    last_link_activity: u64,
    pending_events: usize,
}

fn now_ms(t0: Instant) -> u64 {
    Instant::now().duration_since(t0).as_millis() as u64
}

fn ind_id(ind: &Indication) -> TransactionID {
    match ind {
        Indication::Transaction(id) | Indication::EoFSent(id) | Indication::EoFRecv(id) => *id,
        Indication::Finished(f) => f.id,
        Indication::MetadataRecv(m) => m.id,
        Indication::FileSegmentRecv(f) => f.id,
        Indication::Suspended(s) => s.id,
        Indication::Resumed(r) => r.id,
        Indication::Report(r) => r.id,
        Indication::Fault(f) | Indication::Abandon(f) => f.id,
    }
}
pub fn ind_kind(ind: &Indication) -> &'static str {
    match ind {
        Indication::Transaction(_) => "transaction",
        Indication::EoFSent(_) => "eof-sent",
        Indication::EoFRecv(_) => "eof-recv",
        Indication::Finished(_) => "finished",
        Indication::MetadataRecv(_) => "metadata-recv",
        Indication::FileSegmentRecv(_) => "segment-recv",
        Indication::Suspended(_) => "suspended",
        Indication::Resumed(_) => "resumed",
        Indication::Report(_) => "report",
        Indication::Fault(_) => "fault",
        Indication::Abandon(_) => "abandon",
    }
}

/// Execute one scenario on the calling thread. Deterministic: a pure function of (tree, scenario).
pub fn run_scenario(sc: &Scenario) -> Trace {
    let base = worker_dir().join("sim");
    let _ = std::fs::remove_dir_all(&base);
    let mut roots = vec![];
    for (i, _) in sc.entities.iter().enumerate() {
        let r = base.join(format!("e{i}"));
        std::fs::create_dir_all(&r).expect("entity root");
        roots.push(r);
    }
    for (k, p) in sc.puts.iter().enumerate() {
        if let Some(f) = &p.file {
            let path = roots[p.from].join(&p.src_name);
            if let Some(parent) = path.parent() {
                let _ = std::fs::create_dir_all(parent);
            }
            std::fs::write(&path, f.bytes()).unwrap_or_else(|e| panic!("write source of put {k}: {e}"));
        }
        // make sure the destination directory exists at the receiver
        let d = roots[p.to].join(&p.dst_name);
        if let Some(parent) = d.parent() {
            let _ = std::fs::create_dir_all(parent);
        }
    }
    for (e, name, bytes) in &sc.preload {
        let path = roots[*e].join(name);
        if let Some(parent) = path.parent() {
            let _ = std::fs::create_dir_all(parent);
        }
        if name.ends_with('/') {
            let _ = std::fs::create_dir_all(&path);
        } else {
            std::fs::write(&path, bytes).expect("preload");
        }
    }

    let rt = tokio::runtime::Builder::new_current_thread()
        .enable_time()
        .start_paused(true)
        .rng_seed(tokio::runtime::RngSeed::from_bytes(&sc.seed.to_le_bytes()))
        .build()
        .expect("runtime");
    set_panic_quiet(true);
    let _ = take_panics();
    cfdp_daemon::verif::set_poll_delay(sc.yields);
    let mut trace = rt.block_on(run_async(sc, roots.clone()));
    cfdp_daemon::verif::set_poll_delay(0);
    // dropping the runtime drops every task (daemons, transactions) that is still around
    drop(rt);
    set_panic_quiet(false);
    trace.panics = take_panics();
    trace.roots = roots;
    trace
}

async fn run_async(sc: &Scenario, roots: Vec<PathBuf>) -> Trace {
    let t0 = Instant::now();
    let live_base = cfdp_daemon::verif::live_transactions();
    let n = sc.entities.len();
    let shared = Arc::new(Mutex::new(Shared {
        trace: Trace {
            put_ids: vec![None; sc.puts.len()],
            ..Default::default()
        },
        last_link_activity: 0,
        pending_events: 0,
    }));
    let (sub_tx, mut sub_rx) = unbounded_channel::<Submission>();
    let mut inbox_tx: Vec<Option<UnboundedSender<Vec<u8>>>> = vec![];
    let mut prim_tx: Vec<Option<tokio::sync::mpsc::Sender<UserPrimitive>>> = vec![];
    let mut daemon_handles = vec![];
    let healed = Arc::new(AtomicBool::new(false));

    // (kind, entity, put) -> first time seen; used by OnIndication triggers
    let (ind_evt_tx, mut ind_evt_rx) = unbounded_channel::<(usize, TransactionID, &'static str)>();

    for (i, e) in sc.entities.iter().enumerate() {
        if !e.present {
            inbox_tx.push(None);
            prim_tx.push(None);
            continue;
        }
        let (itx, irx) = unbounded_channel::<Vec<u8>>();
        inbox_tx.push(Some(itx));
        let transport = SimTransport {
            me: i,
            tau: Duration::from_millis(sc.tau_ms),
            sub_tx: sub_tx.clone(),
            inbox: irx,
        };
        let peers: Vec<VariableID> = (0..n).filter(|j| *j != i).map(|j| sc.entity_id(j)).collect();
        let mut tmap: HashMap<Vec<VariableID>, Box<dyn PDUTransport + Send>> = HashMap::new();
        tmap.insert(peers, Box::new(transport));
        let (ptx, prx) = tokio::sync::mpsc::channel::<UserPrimitive>(256);
        let (indtx, mut indrx) = tokio::sync::mpsc::channel::<Indication>(1024);
        prim_tx.push(Some(ptx));
        let store = Arc::new(NativeFileStore::new(
            Utf8PathBuf::from_path_buf(roots[i].clone()).expect("utf8 root"),
        ));
        let mut daemon = Daemon::new(
            sc.entity_id(i),
            vid(e.start_seq, e.seq_width),
            tmap,
            store,
            HashMap::new(),
            entity_config(&e.cfg),
            prx,
            indtx,
        );
        let h = tokio::spawn(async move {
            let r = daemon.manage_transactions().await;
            format!("{r:?}")
        });
        daemon_handles.push((i, h));
        // indication collector
        let sh = shared.clone();
        // the destination path (in the receiving entity's filestore) of every put this entity takes part in
        let put_dst: Vec<(usize, TransactionID, PathBuf)> = sc
            .puts
            .iter()
            .enumerate()
            .filter(|(_, p)| p.to == i || p.from == i)
            .map(|(k, p)| (k, sc.put_id(k), roots[p.to].join(&p.dst_name)))
            .collect();
        let evt = ind_evt_tx.clone();
        tokio::spawn(async move {
            while let Some(ind) = indrx.recv().await {
                let t = now_ms(t0);
                let id = ind_id(&ind);
                let kind = ind_kind(&ind);
                let mut snap = None;
                if let Indication::Finished(_) = &ind {
                    if let Some((k, _, path)) = put_dst.iter().find(|(_, pid, _)| *pid == id) {
                        snap = Some(FileSnap {
                            ind_idx: 0,
                            t,
                            entity: i,
                            put: *k,
                            content: std::fs::read(path).ok(),
                        });
                    }
                }
                {
                    let mut g = sh.lock().unwrap();
                    let idx = g.trace.inds.len();
                    g.trace.inds.push(IndRec { t, entity: i, ind });
                    if let Some(mut s) = snap {
                        s.ind_idx = idx;
                        g.trace.snaps.push(s);
                    }
                }
                let _ = evt.send((i, id, kind));
            }
        });
    }
    drop(ind_evt_tx);

    // ---------------------------------------------------------------- controller (link + actions)
    let sc_c = sc.clone();
    let sh = shared.clone();
    let inbox_c = inbox_tx.clone();
    let prim_c = prim_tx.clone();
    let roots_c = roots.clone();
    let healed_c = healed.clone();
    let put_ids: Vec<TransactionID> = (0..sc.puts.len()).map(|k| sc.put_id(k)).collect();
    let put_ids_c = put_ids.clone();
    tokio::spawn(async move {
        let sc = sc_c;
        let mut heap: BinaryHeap<std::cmp::Reverse<(u64, u64, Event)>> = BinaryHeap::new();
        let mut seq: u64 = 0;
        let mut ord: HashMap<(usize, usize), u32> = HashMap::new();
        let mut ind_fired: Vec<bool> = vec![false; sc.actions.len()];
        let mut blackout_hits: HashMap<usize, u32> = HashMap::new();
        let mut ind_open = true;
        // puts first: a user command scheduled for the same instant follows the Put it refers to
        for (idx, p) in sc.puts.iter().enumerate() {
            heap.push(std::cmp::Reverse((p.at_ms, seq, Event::IssuePut { idx })));
            seq += 1;
        }
        for (idx, a) in sc.actions.iter().enumerate() {
            if let Trigger::AtMs(t) = a.trigger {
                heap.push(std::cmp::Reverse((t, seq, Event::Act { idx })));
                seq += 1;
            }
        }
        sh.lock().unwrap().pending_events = heap.len();
        loop {
            let next = heap.peek().map(|r| r.0 .0);
            let sleep_to = match next {
                Some(t) => t0 + Duration::from_millis(t),
                None => t0 + Duration::from_secs(10_000_000),
            };
            tokio::select! {
                biased;
                sub = sub_rx.recv() => {
                    let Some(sub) = sub else { break };
                    let t = now_ms(t0);
                    let to = (0..sc.entities.len()).find(|j| sc.entity_id(*j) == sub.dest);
                    let mut g = sh.lock().unwrap();
                    g.last_link_activity = t;
                    let Some(to) = to else {
                        g.trace.dgrams.push(Dgram { t, from: sub.from, to: usize::MAX, ord: 0, pdu: PDU::decode(&mut sub.bytes.as_slice()).ok(), bytes: sub.bytes, fate: Fate::UnknownDestination, injected: false, corrupted: false });
                        continue;
                    };
                    let o = ord.entry((sub.from, to)).or_insert(0);
                    let this_ord = *o;
                    *o += 1;
                    let idx = g.trace.dgrams.len();
                    let pdu = PDU::decode(&mut sub.bytes.as_slice()).ok();
                    let mut bytes = sub.bytes;
                    // two corruptions of the same bit restore the datagram: "corrupted" is judged on the bytes, after all faults
                    let pristine = if sc.faults.iter().any(|f| matches!(f.kind, FaultKind::Corrupt { .. } | FaultKind::CorruptData { .. })) { Some(bytes.clone()) } else { None };
                    let mut fate = Fate::Delivered(vec![]);
                    let mut corrupted = false;
                    let is_healed = healed_c.load(AtomicOrdering::Relaxed);
                    let mut deliveries: Vec<u64> = vec![t + sc.lat_ms];
                    if !is_healed {
                        for (bi, b) in sc.blackouts.iter().enumerate() {
                            if b.from == sub.from && b.to == to {
                                let by_ord = b.from_ordinal.map(|k| this_ord >= k).unwrap_or(false);
                                let by_time = match (b.from_ms, b.until_ms) {
                                    (Some(a), Some(z)) => t >= a && t < z,
                                    (Some(a), None) => t >= a,
                                    _ => false,
                                };
                                let kind_ok = b.kind_mask == 0 || (b.kind_mask & (1 << (kind_of(&pdu) as u32))) != 0;
                                if (by_ord || by_time) && kind_ok {
                                    let used = blackout_hits.entry(bi).or_insert(0u32);
                                    if b.limit == 0 || *used < b.limit {
                                        *used += 1;
                                        fate = Fate::Dropped("blackout");
                                    }
                                }
                            }
                        }
                        if fate != Fate::Dropped("blackout") {
                            for f in &sc.faults {
                                if f.from == sub.from && f.to == to && f.ordinal == this_ord {
                                    match &f.kind {
                                        FaultKind::Drop => fate = Fate::Dropped("drop"),
                                        FaultKind::Dup { extra_ms } => deliveries.push(t + sc.lat_ms + extra_ms),
                                        FaultKind::Delay { ms } => {
                                            for d in deliveries.iter_mut() { *d += ms; }
                                        }
                                        FaultKind::CorruptData { frac } => {
                                            if let Some(PDUPayload::FileData(FileDataPDU::Unsegmented(fd))) = pdu.as_ref().map(|x| &x.payload) {
                                                let crc_len = if pdu.as_ref().map(|x| x.header.crc_flag == CRCFlag::Present).unwrap_or(false) { 2 } else { 0 };
                                                let n = fd.file_data.len();
                                                if n > 0 && bytes.len() >= n + crc_len {
                                                    let start = bytes.len() - crc_len - n;
                                                    let bit = (n * 8 * *frac as usize) >> 16;
                                                    bytes[start + bit / 8] ^= 1 << (7 - bit % 8);
                                                }
                                            }
                                        }
                                        FaultKind::Corrupt { frac } => {
                                            if bytes.len() > 4 {
                                                // after the 4 fixed header octets
                                                let nbits = (bytes.len() - 4) * 8;
                                                let bit = (nbits * *frac as usize) >> 16;
                                                bytes[4 + bit / 8] ^= 1 << (7 - bit % 8);
                                                corrupted = true;
                                            }
                                        }
                                    }
                                }
                            }
                        }
                    }
                    if let Some(p) = &pristine {
                        corrupted = *p != bytes;
                    }
                    if !sc.entities[to].present && matches!(fate, Fate::Delivered(_)) {
                        fate = Fate::Sink;
                    }
                    if let Fate::Delivered(v) = &mut fate {
                        *v = deliveries.clone();
                        for d in deliveries {
                            heap.push(std::cmp::Reverse((d, seq, Event::Deliver { to, dgram: idx })));
                            seq += 1;
                        }
                    }
                    g.trace.dgrams.push(Dgram { t, from: sub.from, to, ord: this_ord, bytes, pdu, fate, injected: false, corrupted });
                    if g.trace.dgrams.len() > PDU_BUDGET {
                        g.trace.budget_exceeded = true;
                    }
                    // ordinal triggers
                    for (aidx, a) in sc.actions.iter().enumerate() {
                        if let Trigger::OnOrdinal { from, to: ato, ordinal, delay_ms } = a.trigger {
                            if from == sub.from && ato == to && ordinal == this_ord {
                                heap.push(std::cmp::Reverse((t + delay_ms, seq, Event::Act { idx: aidx })));
                                seq += 1;
                            }
                        }
                    }
                    g.pending_events = heap.len();
                }
                evt = ind_evt_rx.recv(), if ind_open => {
                    // a closed channel (every daemon and transaction gone) must not turn this loop into a busy loop
                    let Some((entity, id, kind)) = evt else { ind_open = false; continue };
                    let t = now_ms(t0);
                    for (aidx, a) in sc.actions.iter().enumerate() {
                        if let Trigger::OnIndication { entity: e, put, kind: k, delay_ms } = &a.trigger {
                            if !ind_fired[aidx] && *e == entity && put_ids_c.get(*put) == Some(&id) && k == kind {
                                ind_fired[aidx] = true;
                                heap.push(std::cmp::Reverse((t + delay_ms, seq, Event::Act { idx: aidx })));
                                seq += 1;
                            }
                        }
                    }
                    sh.lock().unwrap().pending_events = heap.len();
                }
                _ = tokio::time::sleep_until(sleep_to) => {
                    let t = now_ms(t0);
                    while let Some(std::cmp::Reverse((et, _, _))) = heap.peek() {
                        if *et > t { break; }
                        let std::cmp::Reverse((_, _, ev)) = heap.pop().unwrap();
                        match ev {
                            Event::Deliver { to, dgram } => {
                                let bytes = {
                                    let mut g = sh.lock().unwrap();
                                    g.trace.deliveries.push((t, to, dgram));
                                    g.last_link_activity = t;
                                    g.trace.dgrams[dgram].bytes.clone()
                                };
                                if let Some(Some(tx)) = inbox_c.get(to) {
                                    let _ = tx.send(bytes);
                                }
                            }
                            Event::IssuePut { idx } => {
                                let p = &sc.puts[idx];
                                let req = PutRequest {
                                    source_filename: if p.file.is_some() { p.src_name.clone().into() } else { "".into() },
                                    destination_filename: if p.file.is_some() { p.dst_name.clone().into() } else { "".into() },
                                    destination_entity_id: sc.entity_id(p.to),
                                    transmission_mode: if p.unack { TransmissionMode::Unacknowledged } else { TransmissionMode::Acknowledged },
                                    filestore_requests: p.requests.iter().map(|r| r.to_request()).collect(),
                                    message_to_user: p.messages.iter().map(|m| MessageToUser { message_text: m.clone() }).collect(),
                                };
                                let (otx, orx) = oneshot::channel();
                                if let Some(Some(tx)) = prim_c.get(p.from) {
                                    let _ = tx.try_send(UserPrimitive::Put(req, otx));
                                }
                                if p.forget {
                                    drop(orx);
                                } else {
                                    let sh2 = sh.clone();
                                    tokio::spawn(async move {
                                        if let Ok(id) = orx.await {
                                            sh2.lock().unwrap().trace.put_ids[idx] = Some(id);
                                        }
                                    });
                                }
                                sh.lock().unwrap().trace.cmds.push((t, p.from, format!("Put#{idx}")));
                            }
                            Event::Act { idx } => {
                                let a = &sc.actions[idx];
                                let mut desc = String::new();
                                let prim = match &a.kind {
                                    ActionKind::Cancel { put } => { desc = format!("Cancel#{put}"); Some(UserPrimitive::Cancel(put_ids_c[*put])) }
                                    ActionKind::Suspend { put } => { desc = format!("Suspend#{put}"); Some(UserPrimitive::Suspend(put_ids_c[*put])) }
                                    ActionKind::Resume { put } => { desc = format!("Resume#{put}"); Some(UserPrimitive::Resume(put_ids_c[*put])) }
                                    ActionKind::PromptNak { put } => { desc = format!("PromptNak#{put}"); Some(UserPrimitive::Prompt(put_ids_c[*put], NakOrKeepAlive::Nak)) }
                                    ActionKind::PromptKeepAlive { put } => { desc = format!("PromptKeepAlive#{put}"); Some(UserPrimitive::Prompt(put_ids_c[*put], NakOrKeepAlive::KeepAlive)) }
                                    ActionKind::Report { put } => {
                                        desc = format!("Report#{put}");
                                        let (otx, orx) = oneshot::channel();
                                        let sh2 = sh.clone();
                                        let id = put_ids_c[*put];
                                        let entity = a.entity;
                                        tokio::spawn(async move {
                                            let r = tokio::time::timeout(Duration::from_millis(50), orx).await;
                                            let report = match r { Ok(Ok(rep)) => Some(rep), _ => None };
                                            sh2.lock().unwrap().trace.probes.push(Probe { t, entity, id, alive: report.is_some(), report });
                                        });
                                        Some(UserPrimitive::Report(id, otx))
                                    }
                                    ActionKind::RewriteSource { put } => {
                                        let p = &sc.puts[*put];
                                        let path = roots_c[p.from].join(&p.src_name);
                                        if let Ok(old) = std::fs::read(&path) {
                                            let new: Vec<u8> = old.iter().map(|b| !*b).collect();
                                            let _ = std::fs::write(&path, new);
                                        }
                                        sh.lock().unwrap().trace.cmds.push((t, p.from, format!("RewriteSource#{put}")));
                                        None
                                    }
                                    ActionKind::Inject { to, as_from, bytes } => {
                                        let mut g = sh.lock().unwrap();
                                        let didx = g.trace.dgrams.len();
                                        g.trace.dgrams.push(Dgram { t, from: *as_from, to: *to, ord: u32::MAX, pdu: PDU::decode(&mut bytes.as_slice()).ok(), bytes: bytes.clone(), fate: Fate::Delivered(vec![t]), injected: true, corrupted: false });
                                        g.trace.deliveries.push((t, *to, didx));
                                        g.last_link_activity = t;
                                        drop(g);
                                        if let Some(Some(tx)) = inbox_c.get(*to) {
                                            let _ = tx.send(bytes.clone());
                                        }
                                        None
                                    }
                                };
                                if let Some(prim) = prim {
                                    if let Some(Some(tx)) = prim_c.get(a.entity) {
                                        let _ = tx.try_send(prim);
                                    }
                                    sh.lock().unwrap().trace.cmds.push((t, a.entity, desc));
                                }
                            }
                        }
                    }
                    sh.lock().unwrap().pending_events = heap.len();
                }
            }
        }
    });

    // ---------------------------------------------------------------- supervisor
    let last_scheduled: u64 = sc
        .actions
        .iter()
        .filter_map(|a| match a.trigger {
            Trigger::AtMs(t) => Some(t),
            _ => None,
        })
        .chain(sc.puts.iter().map(|p| p.at_ms))
        .max()
        .unwrap_or(0);
    'run: loop {
    loop {
        tokio::time::sleep(Duration::from_millis(100)).await;
        let t = now_ms(t0);
        if t >= sc.horizon_ms {
            break;
        }
        let g = shared.lock().unwrap();
        if g.trace.budget_exceeded {
            break;
        }
        if sc.stop_when_quiet && t > last_scheduled + 200 && g.pending_events == 0 && t >= g.last_link_activity + 2000 {
            // every transaction that ever showed up must have reported Terminated
            // (a report of a live state at or after the last Terminated report is a later instance of the same id)
            let mut started: HashMap<(usize, TransactionID), bool> = HashMap::new();
            let mut last_term: HashMap<(usize, TransactionID), u64> = HashMap::new();
            for r in &g.trace.inds {
                let id = ind_id(&r.ind);
                let e = started.entry((r.entity, id)).or_insert(false);
                if let Indication::Report(rep) = &r.ind {
                    if rep.state == TransactionState::Terminated {
                        *e = true;
                        last_term.insert((r.entity, id), r.t);
                    } else if last_term.get(&(r.entity, id)).map(|lt| r.t >= *lt).unwrap_or(false) {
                        *e = false;
                    }
                }
            }
            if !started.is_empty() && started.values().all(|v| *v) {
                break;
            }
        }
    }
    // final liveness probes: every transaction id seen at every present entity + the scenario's puts
    let mut ids: Vec<(usize, TransactionID)> = vec![];
    {
        let g = shared.lock().unwrap();
        for r in &g.trace.inds {
            let k = (r.entity, ind_id(&r.ind));
            if !ids.contains(&k) {
                ids.push(k);
            }
        }
    }
    for (k, p) in sc.puts.iter().enumerate() {
        for e in [p.from, p.to] {
            if sc.entities[e].present && !ids.contains(&(e, put_ids[k])) {
                ids.push((e, put_ids[k]));
            }
        }
    }
    for (e, id) in ids {
        let Some(Some(tx)) = prim_tx.get(e) else { continue };
        let (otx, orx) = oneshot::channel();
        let _ = tx.try_send(UserPrimitive::Report(id, otx));
        let r = tokio::time::timeout(Duration::from_millis(100), orx).await;
        let report = match r {
            Ok(Ok(rep)) => Some(rep),
            _ => None,
        };
        let t = now_ms(t0);
        shared.lock().unwrap().trace.probes.push(Probe {
            t,
            entity: e,
            id,
            alive: report.is_some(),
            report,
        });
    }
    // the quiet-stop heuristic can be fooled by a second transaction with the same id (started by a straggler in the
    // millisecond in which the first one ended): if the daemon still answers for something, keep running
    {
        let mut g = shared.lock().unwrap();
        let t = now_ms(t0);
        if sc.stop_when_quiet && t < sc.horizon_ms && !g.trace.budget_exceeded && g.trace.probes.iter().any(|p| p.alive) {
            g.trace.probes.clear();
            continue 'run;
        }
    }
    break;
    }
    {
        // let tasks that have just ended unwind, then compare
        tokio::task::yield_now().await;
        let mut g = shared.lock().unwrap();
        let answered = g.trace.probes.iter().filter(|p| p.alive).count() as i64;
        g.trace.orphan_tasks = (cfdp_daemon::verif::live_transactions() - live_base) - answered;
    }
    // health check: heal the link, each present daemon must still serve a fresh Put
    if sc.health_check {
        healed.store(true, AtomicOrdering::Relaxed);
        for (i, e) in sc.entities.iter().enumerate() {
            if !e.present {
                continue;
            }
            let Some(peer) = (0..n).find(|j| *j != i && sc.entities[*j].present) else {
                continue;
            };
            let name = format!("health_{i}.bin");
            let content = Prng::new(i as u64 + 99).bytes(e.cfg.seg as usize + 3);
            let _ = std::fs::write(roots[i].join(&name), &content);
            let (otx, _orx) = oneshot::channel();
            let req = PutRequest {
                source_filename: name.clone().into(),
                destination_filename: format!("health_from_{i}.bin").into(),
                destination_entity_id: sc.entity_id(peer),
                transmission_mode: TransmissionMode::Acknowledged,
                filestore_requests: vec![],
                message_to_user: vec![],
            };
            let sent = prim_tx[i].as_ref().map(|tx| tx.try_send(UserPrimitive::Put(req, otx)).is_ok()).unwrap_or(false);
            let mut ok = false;
            if sent {
                let budget = 1000 * (e.cfg.ti.max(e.cfg.ta).max(e.cfg.tn) as u64 + 5) * (e.cfg.max_count as u64 + 1);
                let mut waited = 0;
                while waited < budget {
                    tokio::time::sleep(Duration::from_millis(100)).await;
                    waited += 100;
                    if std::fs::read(roots[peer].join(format!("health_from_{i}.bin"))).map(|c| c == content).unwrap_or(false) {
                        ok = true;
                        break;
                    }
                }
            }
            shared.lock().unwrap().trace.health.push((i, ok));
        }
    }
    let end = now_ms(t0);
    for (i, h) in daemon_handles {
        if h.is_finished() {
            let how = match h.await {
                Ok(s) => s,
                Err(e) => format!("task failed: {e}"),
            };
            shared.lock().unwrap().trace.daemon_died.push((i, how));
        } else {
            h.abort();
        }
    }
    let mut g = shared.lock().unwrap();
    g.trace.end_ms = end;
    std::mem::take(&mut g.trace)
}

// ------------------------------------------------------------------------------------------------
// trace queries shared by the oracles

#[derive(Clone, Copy, Debug, PartialEq, Eq, Hash, PartialOrd, Ord)]
pub enum Kind {
    Metadata,
    FileData,
    Eof,
    Finished,
    AckEof,
    AckFin,
    Nak,
    Prompt,
    KeepAlive,
    Undecodable,
}

pub fn kind_of(p: &Option<PDU>) -> Kind {
    match p {
        None => Kind::Undecodable,
        Some(p) => match &p.payload {
            PDUPayload::FileData(_) => Kind::FileData,
            PDUPayload::Directive(op) => match op {
                Operations::Metadata(_) => Kind::Metadata,
                Operations::EoF(_) => Kind::Eof,
                Operations::Finished(_) => Kind::Finished,
                Operations::Ack(a) => {
                    if a.directive == PDUDirective::EoF {
                        Kind::AckEof
                    } else {
                        Kind::AckFin
                    }
                }
                Operations::Nak(_) => Kind::Nak,
                Operations::Prompt(_) => Kind::Prompt,
                Operations::KeepAlive(_) => Kind::KeepAlive,
            },
        },
    }
}

pub fn pdu_tid(p: &PDU) -> TransactionID {
    TransactionID(p.header.source_entity_id, p.header.transaction_sequence_number)
}

impl Trace {
    /// datagrams emitted by `from` towards `to` (not injected), in emission order
    pub fn emitted(&self, from: usize, to: usize) -> Vec<&Dgram> {
        self.dgrams.iter().filter(|d| !d.injected && d.from == from && d.to == to).collect()
    }
    pub fn inds_of(&self, entity: usize, id: TransactionID) -> Vec<&IndRec> {
        self.inds.iter().filter(|r| r.entity == entity && ind_id(&r.ind) == id).collect()
    }
    /// time of the Report indication with state Terminated (the transaction task's last act), if any
    pub fn terminated_at(&self, entity: usize, id: TransactionID) -> Option<u64> {
        self.inds_of(entity, id).iter().find_map(|r| match &r.ind {
            Indication::Report(rep) if rep.state == TransactionState::Terminated => Some(r.t),
            _ => None,
        })
    }
    /// was the transaction still answering Report primitives at the end of the run?
    pub fn alive_at_end(&self, entity: usize, id: TransactionID) -> bool {
        self.probes.iter().rev().find(|p| p.entity == entity && p.id == id).map(|p| p.alive).unwrap_or(false)
    }
    /// time of the last datagram delivered to `entity` (any transaction)
    pub fn last_delivery_to(&self, entity: usize) -> Option<u64> {
        self.deliveries.iter().filter(|d| d.1 == entity).map(|d| d.0).max()
    }
    pub fn finished_inds(&self, entity: usize, id: TransactionID) -> Vec<(u64, &cfdp_core::daemon::FinishedIndication)> {
        self.inds_of(entity, id)
            .into_iter()
            .filter_map(|r| match &r.ind {
                Indication::Finished(f) => Some((r.t, f)),
                _ => None,
            })
            .collect()
    }
    /// like finished_inds, with the index of each indication in `inds` (to find its file snapshot)
    pub fn finished_inds_idx(&self, entity: usize, id: TransactionID) -> Vec<(usize, u64, &cfdp_core::daemon::FinishedIndication)> {
        self.inds
            .iter()
            .enumerate()
            .filter(|(_, r)| r.entity == entity)
            .filter_map(|(i, r)| match &r.ind {
                Indication::Finished(f) if f.id == id => Some((i, r.t, f)),
                _ => None,
            })
            .collect()
    }
    pub fn snap_for(&self, ind_idx: usize) -> Option<&FileSnap> {
        self.snaps.iter().find(|s| s.ind_idx == ind_idx)
    }
    pub fn file_at(&self, entity: usize, name: &str) -> Option<Vec<u8>> {
        std::fs::read(self.roots[entity].join(name)).ok()
    }
    /// human-readable rendering for violation messages
    pub fn render(&self, max: usize) -> String {
        let mut lines: Vec<(u64, String)> = vec![];
        for d in &self.dgrams {
            let what = match &d.pdu {
                None => format!("undecodable {} bytes", d.bytes.len()),
                Some(p) => describe_pdu(p),
            };
            lines.push((
                d.t,
                format!(
                    "{:>7} ms  e{}->e{} #{:<3} {}{}  [{}]",
                    d.t,
                    d.from,
                    if d.to == usize::MAX { "?".to_string() } else { d.to.to_string() },
                    if d.ord == u32::MAX { "inj".to_string() } else { d.ord.to_string() },
                    what,
                    if d.corrupted { " CORRUPTED" } else { "" },
                    match &d.fate {
                        Fate::Delivered(v) => format!("delivered at {v:?}"),
                        Fate::Dropped(r) => format!("DROPPED ({r})"),
                        Fate::Sink => "to puppet".into(),
                        Fate::UnknownDestination => "unknown destination".into(),
                    }
                ),
            ));
        }
        for r in &self.inds {
            let s = match &r.ind {
                Indication::FileSegmentRecv(_) | Indication::Transaction(_) => continue,
                Indication::Report(rep) => format!("Report {:?} {:?} {:?}", rep.state, rep.status, rep.condition),
                Indication::Finished(f) => format!(
                    "FINISHED cond={:?} delivery={:?} file={:?} responses={}",
                    f.report.condition,
                    f.delivery_code,
                    f.file_status,
                    f.filestore_responses.len()
                ),
                other => format!("{other:?}"),
            };
            lines.push((r.t, format!("{:>7} ms  e{} indication {}", r.t, r.entity, truncate(&s, 160))));
        }
        for (t, e, c) in &self.cmds {
            lines.push((*t, format!("{:>7} ms  e{} USER {}", t, e, c)));
        }
        for p in &self.probes {
            lines.push((p.t, format!("{:>7} ms  e{} probe {} -> {}", p.t, p.entity, p.id, if p.alive { "ALIVE" } else { "gone" })));
        }
        lines.sort_by_key(|l| l.0);
        let total = lines.len();
        let mut out: Vec<String> = lines.into_iter().take(max).map(|l| l.1).collect();
        if total > max {
            out.push(format!("... {} more lines", total - max));
        }
        for p in &self.panics {
            out.push(format!("PANIC {p}"));
        }
        out.join("\n")
    }
}

pub fn describe_pdu(p: &PDU) -> String {
    match &p.payload {
        PDUPayload::FileData(FileDataPDU::Unsegmented(d)) => format!("FileData[{}..{})", d.offset, d.offset + d.file_data.len() as u64),
        PDUPayload::FileData(FileDataPDU::Segmented(d)) => format!("SegFileData[{}..{})", d.offset, d.offset + d.file_data.len() as u64),
        PDUPayload::Directive(op) => match op {
            Operations::Metadata(m) => format!("Metadata(size {}, {} -> {}, {} options)", m.file_size, m.source_filename, m.destination_filename, m.options.len()),
            Operations::EoF(e) => format!("EOF(cond {:?}, size {}, cksum {:#x})", e.condition, e.file_size, e.checksum),
            Operations::Finished(f) => format!("Finished(cond {:?}, {:?}, {:?}, {} responses)", f.condition, f.delivery_code, f.file_status, f.filestore_response.len()),
            Operations::Ack(a) => format!("ACK({:?}, cond {:?}, {:?})", a.directive, a.condition, a.transaction_status),
            Operations::Nak(n) => format!(
                "NAK(scope {}..{}, {:?})",
                n.start_of_scope,
                n.end_of_scope,
                n.segment_requests.iter().map(|s| (s.start_offset, s.end_offset)).collect::<Vec<_>>()
            ),
            Operations::Prompt(pr) => format!("Prompt({:?})", pr.nak_or_keep_alive),
            Operations::KeepAlive(k) => format!("KeepAlive(progress {})", k.progress),
        },
    }
}
