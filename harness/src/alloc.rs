//! Thread-local heap accounting: how many bytes were live at the peak while a closure ran.
//! Used by C06 to bound what a decoder allocates for one input (deterministic, no wall clock).

use std::alloc::{GlobalAlloc, Layout, System};
use std::cell::Cell;

thread_local! {
    static LIVE: Cell<isize> = const { Cell::new(0) };
    static PEAK: Cell<isize> = const { Cell::new(0) };
    static ON: Cell<bool> = const { Cell::new(false) };
}

pub struct Counting;

#[inline]
fn add(n: isize) {
    // try_with: the allocator can be called while TLS is being torn down
    let _ = ON.try_with(|on| {
        if on.get() {
            let _ = LIVE.try_with(|l| {
                let v = l.get() + n;
                l.set(v);
                let _ = PEAK.try_with(|p| {
                    if v > p.get() {
                        p.set(v)
                    }
                });
            });
        }
    });
}

unsafe impl GlobalAlloc for Counting {
    unsafe fn alloc(&self, layout: Layout) -> *mut u8 {
        add(layout.size() as isize);
        System.alloc(layout)
    }
    unsafe fn dealloc(&self, ptr: *mut u8, layout: Layout) {
        add(-(layout.size() as isize));
        System.dealloc(ptr, layout)
    }
    unsafe fn alloc_zeroed(&self, layout: Layout) -> *mut u8 {
        add(layout.size() as isize);
        System.alloc_zeroed(layout)
    }
    unsafe fn realloc(&self, ptr: *mut u8, layout: Layout, new_size: usize) -> *mut u8 {
        add(new_size as isize - layout.size() as isize);
        System.realloc(ptr, layout, new_size)
    }
}

/// Run `f` and return (result, peak number of bytes live on the heap above the level at entry).
pub fn measure<T>(f: impl FnOnce() -> T) -> (T, usize) {
    LIVE.with(|l| l.set(0));
    PEAK.with(|p| p.set(0));
    ON.with(|o| o.set(true));
    let r = f();
    ON.with(|o| o.set(false));
    let peak = PEAK.with(|p| p.get());
    (r, std::cmp::max(peak, 0) as usize)
}

/// Turn accounting off (after a caught panic the flag may still be set).
pub fn stop() -> usize {
    ON.with(|o| o.set(false));
    let peak = PEAK.with(|p| p.get());
    std::cmp::max(peak, 0) as usize
}
