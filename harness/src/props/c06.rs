//! C06 — decoding arbitrary bytes never panics and what it accepts is canonical.
//!
//! Engine E1 (quick) + E4 libFuzzer target `decode` (thorough), both through `judge`.
//! Oracle, per input and decoder: (1) no panic (overflow checks are on in this build);
//! (2) fuel: the input is wrapped in a counting reader, more than 10^6 read calls = "loops";
//! (3) allocation: the peak of live heap during one decode stays under 1 MiB (a few copies of the
//! 64 KiB a length field can announce); (4) canonical: if Ok(p), then p' = p with the length
//! field recomputed satisfies decode(encode(p')) == p'.

use crate::alloc;
use crate::common::*;
use crate::wire;
use cfdp_core::daemon::Report;
use cfdp_core::pdu::*;
use proptest::prelude::*;
use serde::{Deserialize, Serialize};
use std::io::Read;

pub const ALLOC_LIMIT: usize = 1 << 20;
pub const FUEL: u64 = 1_000_000;

#[derive(Clone, Debug, Serialize, Deserialize)]
pub struct DecCase {
    /// which public decoder: pdu | header | ops-s | ops-l | fd-us | fd-ul | fd-ss | fd-sl | tlv | user_op |
    /// report | variable_id | fs_request | fs_response
    pub target: String,
    pub bytes: Vec<u8>,
}

pub const TARGETS: [&str; 14] = [
    "pdu", "header", "ops-s", "ops-l", "fd-us", "fd-ul", "fd-ss", "fd-sl", "tlv", "user_op", "report",
    "variable_id", "fs_request", "fs_response",
];

struct Fuel<'a> {
    inner: &'a [u8],
    calls: u64,
}
impl<'a> Read for Fuel<'a> {
    fn read(&mut self, buf: &mut [u8]) -> std::io::Result<usize> {
        self.calls += 1;
        if self.calls > FUEL {
            return Err(std::io::Error::new(std::io::ErrorKind::Other, "FUEL EXHAUSTED"));
        }
        self.inner.read(buf)
    }
}

#[derive(Debug, PartialEq, Clone, Copy)]
pub enum Verdict {
    Rejected,
    RejectedAtFirstOctets,
    Accepted,
}

fn fail(key: &str, target: &str, msg: String) -> (String, String) {
    (format!("{key}:{target}"), msg)
}

macro_rules! canon {
    ($target:expr, $val:expr, $enc:expr, $dec:expr) => {{
        let v = $val;
        let enc: Vec<u8> = $enc(v.clone());
        match $dec(&mut enc.as_slice()) {
            Ok(q) if q == v => Ok(Verdict::Accepted),
            Ok(q) => Err(fail(
                "not-canonical",
                $target,
                format!("accepted value does not survive re-encoding:\n accepted {v:?}\n re-decoded {q:?}"),
            )),
            Err(e) => Err(fail(
                "not-canonical",
                $target,
                format!("accepted value is rejected after re-encoding ({e}): {v:?}"),
            )),
        }
    }};
}

/// The whole oracle for one input; also called from the fuzz target.
pub fn judge(target: &str, bytes: &[u8]) -> Result<Verdict, (String, String)> {
    let mut rd = Fuel {
        inner: bytes,
        calls: 0,
    };
    let rd = &mut rd;
    // phase 1: decode under panic guard, fuel and allocation accounting
    macro_rules! run {
        ($e:expr) => {{
            let (r, peak) = {
                let g = guarded(|| alloc::measure(|| $e));
                match g {
                    Ok(x) => x,
                    Err(p) => {
                        alloc::stop();
                        return Err((
                            format!("{}:{}", panic_site(&p), target),
                            format!("decoder panicked: {p}"),
                        ));
                    }
                }
            };
            if peak > ALLOC_LIMIT {
                return Err(fail(
                    "alloc",
                    target,
                    format!("peak live heap during decode = {peak} bytes (> {ALLOC_LIMIT}) for a {}-byte input", bytes.len()),
                ));
            }
            r
        }};
    }
    let early = |e: &PDUError| -> Verdict {
        let _ = e;
        Verdict::Rejected
    };
    let res: Result<Verdict, (String, String)> = match target {
        "pdu" => {
            let r = run!(PDU::decode(rd));
            match r {
                Err(e) => Ok(early(&e)),
                Ok(p) => {
                    let mut p2 = p.clone();
                    p2.header.pdu_data_field_length = p2.payload.encoded_len(p2.header.large_file_flag);
                    let g = guarded(|| canon!(target, p2, |v: PDU| v.encode(), |b: &mut &[u8]| PDU::decode(b)));
                    match g {
                        Ok(r) => r,
                        Err(pn) => Err((
                            format!("{}:{}:reencode", panic_site(&pn), target),
                            format!("re-encoding an accepted PDU panicked: {pn}; accepted {p:?}"),
                        )),
                    }
                }
            }
        }
        "header" => match run!(PDUHeader::decode(rd)) {
            Err(e) => Ok(early(&e)),
            Ok(h) => {
                // a header that announces crc with a length that cannot be re-encoded is not produced by decode
                let g = guarded(|| canon!(target, h.clone(), |v: PDUHeader| v.encode(), |b: &mut &[u8]| PDUHeader::decode(b)));
                match g {
                    Ok(r) => r,
                    Err(pn) => Err((
                        format!("{}:{}:reencode", panic_site(&pn), target),
                        format!("re-encoding an accepted header panicked: {pn}; accepted {h:?}"),
                    )),
                }
            }
        },
        "ops-s" | "ops-l" => {
            let f = if target == "ops-l" { FileSizeFlag::Large } else { FileSizeFlag::Small };
            match run!(Operations::decode(rd, f)) {
                Err(e) => Ok(early(&e)),
                Ok(v) => canon!(target, v, |v: Operations| v.encode(f), |b: &mut &[u8]| Operations::decode(b, f)),
            }
        }
        "fd-us" | "fd-ul" | "fd-ss" | "fd-sl" => {
            let f = if target.ends_with('l') { FileSizeFlag::Large } else { FileSizeFlag::Small };
            let s = if target.as_bytes()[3] == b's' {
                SegmentedData::Present
            } else {
                SegmentedData::NotPresent
            };
            match run!(FileDataPDU::decode(rd, s, f)) {
                Err(e) => Ok(early(&e)),
                Ok(v) => canon!(target, v, |v: FileDataPDU| v.encode(f), |b: &mut &[u8]| FileDataPDU::decode(b, s, f)),
            }
        }
        "tlv" => match run!(MetadataTLV::decode(rd)) {
            Err(e) => Ok(early(&e)),
            Ok(v) => canon!(target, v, |v: MetadataTLV| v.encode(), |b: &mut &[u8]| MetadataTLV::decode(b)),
        },
        "user_op" => match run!(UserOperation::decode(rd)) {
            Err(e) => Ok(early(&e)),
            Ok(v) => canon!(target, v, |v: UserOperation| v.encode(), |b: &mut &[u8]| UserOperation::decode(b)),
        },
        "report" => match run!(Report::decode(rd)) {
            Err(e) => Ok(early(&e)),
            Ok(v) => {
                let enc = v.clone().encode();
                match Report::decode(&mut enc.as_slice()) {
                    Ok(q) if q.id == v.id && q.state == v.state && q.status == v.status && q.condition == v.condition => {
                        Ok(Verdict::Accepted)
                    }
                    other => Err(fail("not-canonical", target, format!("{v:?} re-decodes as {other:?}"))),
                }
            }
        },
        "variable_id" => match run!(VariableID::decode(rd)) {
            Err(e) => Ok(early(&e)),
            Ok(v) => canon!(target, v, |v: VariableID| v.encode(), |b: &mut &[u8]| VariableID::decode(b)),
        },
        "fs_request" => match run!(FileStoreRequest::decode(rd)) {
            Err(e) => Ok(early(&e)),
            Ok(v) => canon!(target, v, |v: FileStoreRequest| v.encode(), |b: &mut &[u8]| FileStoreRequest::decode(b)),
        },
        "fs_response" => match run!(FileStoreResponse::decode(rd)) {
            Err(e) => Ok(early(&e)),
            Ok(v) => canon!(target, v, |v: FileStoreResponse| v.encode(), |b: &mut &[u8]| FileStoreResponse::decode(b)),
        },
        other => Err(("bad-target".into(), format!("unknown decoder {other}"))),
    };
    if rd.calls > FUEL {
        return Err(fail(
            "loops",
            target,
            format!("more than {FUEL} read calls for a {}-byte input", bytes.len()),
        ));
    }
    // "rejected at the first header octets": consumed at most 4 bytes before giving up
    match res {
        Ok(Verdict::Rejected) if bytes.len() - rd.inner.len() <= 4 && target == "pdu" => Ok(Verdict::RejectedAtFirstOctets),
        other => other,
    }
}

pub struct DecPart;
impl Part for DecPart {
    type Case = DecCase;
    fn name(&self) -> &'static str {
        "decode"
    }
    fn run(&self, case: &DecCase) -> CaseOut {
        let out = CaseOut::ok();
        match judge(&case.target, &case.bytes) {
            Ok(v) => {
                let out = match v {
                    Verdict::Accepted => out.class("accepted"),
                    Verdict::Rejected => out.class("rejected-in-payload"),
                    Verdict::RejectedAtFirstOctets => out.class("rejected-at-first-octets"),
                };
                if v != Verdict::RejectedAtFirstOctets {
                    out.nt(hash_of(&(case.target.as_str(), &case.bytes)))
                } else {
                    out
                }
            }
            Err((k, m)) => out.failed(
                k,
                format!("{m}; decoder {} input ({} bytes) {}", case.target, case.bytes.len(), hex(&case.bytes, 96)),
            ),
        }
    }
}

pub fn hex(b: &[u8], max: usize) -> String {
    let mut s: String = b.iter().take(max).map(|x| format!("{x:02x}")).collect();
    if b.len() > max {
        s.push_str("…");
    }
    s
}

/// valid encodings for the mutation classes: (decoder, bytes)
pub fn seed_inputs() -> Vec<(String, Vec<u8>)> {
    let mut v: Vec<(String, Vec<u8>)> = vec![];
    for (_, p) in wire::corpus_pdus() {
        let f = p.header.large_file_flag;
        match &p.payload {
            PDUPayload::Directive(op) => {
                let t = if f == FileSizeFlag::Large { "ops-l" } else { "ops-s" };
                v.push((t.into(), op.clone().encode(f)));
                if let Operations::Metadata(m) = op {
                    for o in &m.options {
                        v.push(("tlv".into(), o.clone().encode()));
                        match o {
                            MetadataTLV::FileStoreRequest(r) => v.push(("fs_request".into(), r.clone().encode())),
                            MetadataTLV::EntityID(i) => v.push(("variable_id".into(), i.encode())),
                            _ => {}
                        }
                    }
                }
                if let Operations::Finished(fin) = op {
                    for r in &fin.filestore_response {
                        v.push(("fs_response".into(), r.clone().encode()));
                    }
                }
            }
            PDUPayload::FileData(d) => {
                let t = match (d, f) {
                    (FileDataPDU::Unsegmented(_), FileSizeFlag::Small) => "fd-us",
                    (FileDataPDU::Unsegmented(_), FileSizeFlag::Large) => "fd-ul",
                    (FileDataPDU::Segmented(_), FileSizeFlag::Small) => "fd-ss",
                    (FileDataPDU::Segmented(_), FileSizeFlag::Large) => "fd-sl",
                };
                v.push((t.into(), d.clone().encode(f)));
            }
        }
        v.push(("header".into(), p.header.clone().encode()));
        v.push(("pdu".into(), p.clone().encode()));
    }
    // user operations and reports from tapes
    for i in 0..120u64 {
        let tape = Prng::new(i).bytes(80);
        let mut t = wire::Tape::new(&tape);
        v.push(("user_op".into(), wire::user_operation(&mut t).encode()));
        let mut t = wire::Tape::new(&tape);
        v.push(("report".into(), wire::report(&mut t).encode()));
    }
    // length-prefixed text fields at (and just below) their maximum length: a decoder that accepts something slightly
    // different from what the encoder can write (e.g. a name that grows when it is normalised) shows up here
    for (a, b) in [(255usize, 3usize), (254, 255), (3, 255), (200, 254)] {
        let name = |n: usize, c: char| -> camino::Utf8PathBuf { std::iter::repeat(c).take(n).collect::<String>().into() };
        let m = MetadataPDU {
            closure_requested: a % 2 == 1,
            checksum_type: cfdp_core::filestore::ChecksumType::Modular,
            file_size: 77,
            source_filename: name(a, 's'),
            destination_filename: name(b, 'd'),
            options: vec![
                MetadataTLV::FileStoreRequest(FileStoreRequest {
                    action_code: FileStoreAction::RenameFile,
                    first_filename: name(b, 'f'),
                    second_filename: name(a, 'g'),
                }),
                MetadataTLV::MessageToUser(MessageToUser { message_text: vec![b'm'; a.min(250)] }),
            ],
        };
        for f in [FileSizeFlag::Small, FileSizeFlag::Large] {
            v.push((if f == FileSizeFlag::Large { "ops-l" } else { "ops-s" }.into(), Operations::Metadata(m.clone()).encode(f)));
        }
        for o in &m.options {
            v.push(("tlv".into(), o.clone().encode()));
            if let MetadataTLV::FileStoreRequest(r) = o {
                v.push(("fs_request".into(), r.clone().encode()));
                v.push((
                    "fs_response".into(),
                    FileStoreResponse {
                        action_and_status: FileStoreStatus::RenameFile(RenameStatus::Successful),
                        first_filename: r.first_filename.clone(),
                        second_filename: r.second_filename.clone(),
                        filestore_message: vec![b'x'; 255],
                    }
                    .encode(),
                ));
            }
        }
    }
    v.sort();
    v.dedup();
    v
}

fn random_strategy() -> impl Strategy<Value = DecCase> {
    let target = proptest::sample::select(TARGETS.to_vec());
    let bytes = prop_oneof![
        8 => proptest::collection::vec(any::<u8>(), 0..300),
        // structured: a plausible first octet + length + random rest
        6 => (any::<u8>(), 0u16..40, any::<u8>(), proptest::collection::vec(any::<u8>(), 0..80)).prop_map(|(b0, len, b3, rest)| {
            let mut v = vec![b0, (len >> 8) as u8, len as u8, b3];
            v.extend(rest);
            v
        }),
        1 => proptest::collection::vec(any::<u8>(), 60_000..66_000),
    ];
    (target, bytes).prop_map(|(t, bytes)| DecCase {
        target: t.to_string(),
        bytes,
    })
}

/// the libFuzzer input format of target `decode`: byte 0 selects the decoder, the rest is the input
pub fn fuzz_case(data: &[u8]) -> Option<DecCase> {
    if data.is_empty() {
        return None;
    }
    Some(DecCase {
        target: TARGETS[data[0] as usize % TARGETS.len()].to_string(),
        bytes: data[1..].to_vec(),
    })
}

pub fn run(ctx: &mut Ctx) {
    ctx.rule = "inputs: (a) every byte string of length <= 2 for every decoder, (b) every truncation and every single-byte mutation \
(->00, ->FF, ^01, ^80, +1, -1) of valid encodings of every PDU type x CRC on/off x Small/Large x id widths and of their parts (operations, \
file data, TLVs, filestore requests/responses, ids, user operations, reports), (c) length / id-length / flag octets forced to \
{0,1,2,3,255,65534,65535}, (d) proptest random strings (0..300 bytes, structured headers, a few 64 KiB). Decoders: PDU, PDUHeader, Operations, FileDataPDU \
(4 forms), MetadataTLV, UserOperation, Report, VariableID, FileStoreRequest, FileStoreResponse. Non-trivial = not rejected within the first \
4 octets of a PDU (payload decoding was reached) or any per-type decoder input; distinct by (decoder, input)."
        .into();
    ctx.assumptions = vec![
        "a wall-clock hang is reported as inconclusive (exit 2) by the watchdog; 'never loops' is decided by the read-call fuel".into(),
        "the allocation bound is 1 MiB of peak live heap per decode (several copies of a 64 KiB field are legitimate)".into(),
    ];
    let part = DecPart;
    ctx.run_known_replays(&part);

    // (a) all short strings
    ctx.section = "all-strings-len<=2".into();
    let n_short = 1 + 256 + 65536u64;
    let nt = TARGETS.len() as u64;
    ctx.drive_indexed(&part, n_short * nt, true, |i| {
        let target = TARGETS[(i % nt) as usize].to_string();
        let k = i / nt;
        let bytes = if k == 0 {
            vec![]
        } else if k <= 256 {
            vec![(k - 1) as u8]
        } else {
            let w = k - 257;
            vec![(w >> 8) as u8, w as u8]
        };
        DecCase { target, bytes }
    });

    // (b) truncations and single-byte mutations of valid encodings
    let seeds = seed_inputs();
    let mut cases: Vec<DecCase> = vec![];
    for (t, enc) in &seeds {
        for cut in 0..=enc.len() {
            cases.push(DecCase {
                target: t.clone(),
                bytes: enc[..cut].to_vec(),
            });
        }
        for pos in 0..enc.len() {
            let b = enc[pos];
            for nb in [0x00, 0xFF, b ^ 1, b ^ 0x80, b.wrapping_add(1), b.wrapping_sub(1)] {
                if nb != b {
                    let mut m = enc.clone();
                    m[pos] = nb;
                    cases.push(DecCase {
                        target: t.clone(),
                        bytes: m,
                    });
                }
            }
        }
        // an extra trailing byte / trailing garbage
        let mut m = enc.clone();
        m.push(0);
        cases.push(DecCase { target: t.clone(), bytes: m.clone() });
        m.extend([0xFF; 7]);
        cases.push(DecCase { target: t.clone(), bytes: m });
    }
    ctx.section = "truncations+byte-mutations".into();
    ctx.drive_list(&part, cases, true);

    // (c) forced fields on whole PDUs: length field, id-length octet, first octet
    let mut cases: Vec<DecCase> = vec![];
    for (t, enc) in seeds.iter().filter(|(t, _)| t == "pdu") {
        for len in [0u16, 1, 2, 3, 4, 255, 256, 65533, 65534, 65535] {
            let mut m = enc.clone();
            m[1] = (len >> 8) as u8;
            m[2] = len as u8;
            cases.push(DecCase { target: t.clone(), bytes: m.clone() });
            // and with the announced number of bytes really present
            let hl = 4 + 2 * (((m[3] >> 4) & 7) as usize + 1) + ((m[3] & 7) as usize + 1);
            if (len as usize) < 70000 {
                let mut full = m[..std::cmp::min(hl, m.len())].to_vec();
                let body: Vec<u8> = enc.iter().skip(hl).cloned().chain(std::iter::repeat(0xA5)).take(len as usize).collect();
                full.extend(body);
                cases.push(DecCase { target: t.clone(), bytes: full });
            }
        }
        for b3 in [0x00u8, 0x07, 0x70, 0x77, 0x11, 0x33, 0x22, 0x55, 0xFF, 0x80, 0x08] {
            let mut m = enc.clone();
            m[3] = b3;
            cases.push(DecCase { target: t.clone(), bytes: m });
        }
        for b0 in 0..=255u8 {
            if enc.len() < 40 {
                let mut m = enc.clone();
                m[0] = b0;
                cases.push(DecCase { target: t.clone(), bytes: m });
            }
        }
    }
    ctx.section = "forced-fields".into();
    ctx.drive_list(&part, cases, true);

    // (d) random
    ctx.section = "random".into();
    let n = ctx.tier.pick(300_000u64, 4_000_000);
    ctx.drive_proptest(&part, random_strategy(), n, 4000);
    ctx.section.clear();
    if ctx.tier == Tier::Thorough {
        // coverage-guided campaign through the same oracle (E4)
        let c = crate::fuzzrun::Campaign { target: "decode", runs: 1_500_000, max_len: 700 };
        crate::fuzzrun::campaign_into_ctx(ctx, &c, |bytes| match fuzz_case(bytes) {
            Some(case) => (DecPart.run(&case).fail, serde_json::to_value(&case).unwrap(), "decode"),
            None => (None, serde_json::Value::Null, "decode"),
        });
    }
}
