//! C07 — the sender transmits exactly the source file: right bytes, offsets, sizes, checksum.
//!
//! Engine E3: a real sending daemon against a puppet receiver that sends NAKs of any shape
//! (overlapping, unsorted, duplicated, empty, the 0-0 metadata marker, longer than a segment,
//! straddling or beyond the end of the file, inverted) at any time: while the first pass is still
//! running (after the k-th datagram), after EOF, repeatedly.
//! Oracle (reference model = the source bytes + the requested byte sets): every emitted datagram
//! has the transaction's header fields and a length field equal to its payload; file data equals
//! source[offset..offset+len], len <= segment, inside the file; PDUs that are not inside a
//! previously requested range are exactly the first pass 0, seg, 2 seg, ... once, in order; every
//! requested byte inside the file is retransmitted after the request, no retransmission lies
//! outside every request; the 0-0 marker is answered by a Metadata PDU identical to the first;
//! Metadata and EOF state the true names, size, checksum type, closure flag and checksum.

use super::simutil::*;
use crate::common::*;
use crate::puppet::{modular, Pup};
use crate::sim::*;
use cfdp_core::filestore::ChecksumType;
use cfdp_core::pdu::*;
use serde::{Deserialize, Serialize};

#[derive(Clone, Debug, Serialize, Deserialize)]
pub struct C07Case {
    pub sc: Scenario,
}

fn fail(tr: &Trace, key: &str, msg: String) -> Fail {
    Fail {
        key: key.to_string(),
        msg: format!("{msg}\n{}", tr.render(260)),
    }
}

pub fn check_sender(sc: &Scenario, tr: &Trace) -> Result<Vec<&'static str>, Fail> {
    let p = &sc.puts[0];
    let id = sc.put_id(0);
    let cfg = &sc.entities[p.from].cfg;
    let src = p.file.as_ref().map(|f| f.bytes()).unwrap_or_default();
    let size = src.len() as u64;
    let seg = cfg.seg as u64;
    let mut labels = vec![];
    // NAK requests delivered to the sender: (time, requests)
    let mut requests: Vec<(u64, Vec<(u64, u64)>)> = vec![];
    for (t, to, di) in &tr.deliveries {
        if *to != p.from {
            continue;
        }
        if let Some(PDUPayload::Directive(Operations::Nak(n))) = tr.dgrams[*di].pdu.as_ref().map(|x| &x.payload) {
            requests.push((*t, n.segment_requests.iter().map(|r| (r.start_offset, r.end_offset)).collect()));
        }
    }
    let finished_at = tr
        .deliveries
        .iter()
        .filter(|(_, to, di)| *to == p.from && kind_of(&tr.dgrams[*di].pdu) == Kind::Finished)
        .map(|x| x.0)
        .min();
    let mut next_first_pass = 0u64;
    let mut first_meta: Option<MetadataPDU> = None;
    let mut meta_count = 0usize;
    // per byte: how often it was put on the link
    let mut emitted_count = vec![0u32; size as usize];
    let mut eof_seen = 0;
    let emitted = tr.emitted(p.from, p.to);
    let first_eof_idx = emitted
        .iter()
        .position(|d| matches!(d.pdu.as_ref().map(|x| &x.payload), Some(PDUPayload::Directive(Operations::EoF(e))) if e.condition == Condition::NoError))
        .unwrap_or(emitted.len());
    for (di, d) in emitted.iter().enumerate() {
        let Some(pdu) = &d.pdu else {
            return Err(fail(tr, "undecodable-pdu", format!("the sender emitted bytes that do not decode at {} ms", d.t)));
        };
        // ---- header
        let h = &pdu.header;
        let want_mode = if p.unack { TransmissionMode::Unacknowledged } else { TransmissionMode::Acknowledged };
        if h.source_entity_id != id.0
            || h.transaction_sequence_number != id.1
            || h.destination_entity_id != sc.entity_id(p.to)
            || h.transmission_mode != want_mode
            || h.direction != Direction::ToReceiver
            || (h.crc_flag == CRCFlag::Present) != cfg.crc
            || h.large_file_flag != FileSizeFlag::Small
            || h.version != U3::One
        {
            return Err(fail(tr, "wrong-header-fields", format!("datagram at {} ms carries header {h:?}, transaction {id} mode {want_mode:?} crc {}", d.t, cfg.crc)));
        }
        let hl = h.encoded_len() as usize;
        let wire_len = u16::from_be_bytes([d.bytes[1], d.bytes[2]]) as usize;
        if hl + wire_len != d.bytes.len() {
            return Err(fail(
                tr,
                "length-field-wrong",
                format!("datagram at {} ms: length field {wire_len}, bytes after the {hl}-byte header {}", d.t, d.bytes.len() - hl),
            ));
        }
        match &pdu.payload {
            PDUPayload::FileData(FileDataPDU::Unsegmented(fd)) => {
                let (o, l) = (fd.offset, fd.file_data.len() as u64);
                if l == 0 {
                    labels.push("zero-length-filedata");
                    continue;
                }
                if l > seg {
                    return Err(fail(tr, "filedata-longer-than-segment", format!("file data [{o}, {}) at {} ms is longer than the segment size {seg}", o + l, d.t)));
                }
                if o + l > size {
                    return Err(fail(tr, "filedata-beyond-eof", format!("file data [{o}, {}) at {} ms reaches beyond the file size {size}", o + l, d.t)));
                }
                if fd.file_data[..] != src[o as usize..(o + l) as usize] {
                    return Err(fail(tr, "filedata-wrong-bytes", format!("file data [{o}, {}) at {} ms differs from the source file", o + l, d.t)));
                }
                // byte accounting (no attribution of single PDUs to "first pass" or "retransmission": a request can reach
                // the sender while a tile is still in the transport pipeline, which makes single PDUs ambiguous)
                for b in o..o + l {
                    emitted_count[b as usize] += 1;
                }
                let is_tile = o % seg == 0 && l == seg.min(size - o);
                if is_tile && o == next_first_pass && di < first_eof_idx {
                    // earliest in-order occurrence of every tile: the first pass exists as a subsequence
                    next_first_pass += l;
                }
                if !is_tile {
                    labels.push("retransmission");
                    let requested_before = requests
                        .iter()
                        .filter(|(t, _)| *t <= d.t)
                        .flat_map(|(_, rs)| rs.iter())
                        .any(|(s, e)| s < e && *s <= o && o + l <= *e);
                    if !requested_before {
                        return Err(fail(
                            tr,
                            "filedata-unrequested",
                            format!("file data [{o}, {}) at {} ms is not a first-pass tile (segment {seg}) and not inside any range requested before", o + l, d.t),
                        ));
                    }
                }
            }
            PDUPayload::FileData(_) => return Err(fail(tr, "segmented-filedata", "segmented file data emitted".into())),
            PDUPayload::Directive(Operations::Metadata(m)) => {
                meta_count += 1;
                let want_ck = if cfg.null_checksum { ChecksumType::Null } else { ChecksumType::Modular };
                if m.file_size != size
                    || m.source_filename.as_str() != p.src_name
                    || m.destination_filename.as_str() != p.dst_name
                    || m.checksum_type != want_ck
                    || m.closure_requested != cfg.closure
                {
                    return Err(fail(tr, "metadata-wrong", format!("Metadata at {} ms: {m:?}; true size {size}, names {} -> {}, checksum {want_ck:?}, closure {}", d.t, p.src_name, p.dst_name, cfg.closure)));
                }
                let want_opts = p.requests.len() + p.messages.len();
                if m.options.len() != want_opts {
                    return Err(fail(tr, "metadata-wrong", format!("Metadata carries {} options, the Put had {want_opts}", m.options.len())));
                }
                match &first_meta {
                    None => first_meta = Some(m.clone()),
                    Some(f) if f != m => return Err(fail(tr, "metadata-retransmission-differs", format!("Metadata at {} ms differs from the first one", d.t))),
                    _ => {}
                }
            }
            PDUPayload::Directive(Operations::EoF(e)) => {
                eof_seen += 1;
                if e.condition == Condition::NoError {
                    let want = if cfg.null_checksum { 0 } else { modular(&src) };
                    if e.file_size != size || e.checksum != want {
                        return Err(fail(
                            tr,
                            "eof-wrong",
                            format!("EOF at {} ms states size {} checksum {:#x}; true size {size}, checksum {want:#x}", d.t, e.file_size, e.checksum),
                        ));
                    }
                    if next_first_pass != size {
                        return Err(fail(tr, "eof-before-first-pass-complete", format!("EOF at {} ms after only {next_first_pass} of {size} first-pass bytes", d.t)));
                    }
                }
            }
            PDUPayload::Directive(Operations::Ack(_)) | PDUPayload::Directive(Operations::Prompt(_)) => {}
            PDUPayload::Directive(other) => {
                return Err(fail(tr, "sender-emits-receiver-pdu", format!("the sender emitted {:?} at {} ms", other.get_directive(), d.t)));
            }
        }
    }
    if meta_count == 0 && !tr.emitted(p.from, p.to).is_empty() {
        return Err(fail(tr, "no-metadata", "no Metadata PDU emitted".into()));
    }
    // ---- every request is answered (requests that arrived while the sender could still answer)
    let term = tr.terminated_at(p.from, id).unwrap_or(tr.end_ms);
    let answer_deadline = finished_at.unwrap_or(term).min(term);
    let mut marker_requests = 0;
    // requests delivered early enough to be answered, per byte: must-answer flag and number of ranges containing it
    let mut must = vec![false; size as usize];
    let mut asked = vec![0u32; size as usize];
    for (t, rs) in &requests {
        let in_time = *t + 60 + 8 * (rs.len() as u64 + 4) * sc.tau_ms.max(1) <= answer_deadline;
        for (s, e) in rs {
            if *s == 0 && *e == 0 {
                if in_time {
                    marker_requests += 1;
                }
                continue;
            }
            if s >= e {
                continue; // empty or inverted: nothing to answer
            }
            for b in *s..(*e).min(size) {
                asked[b as usize] += 1;
                if in_time {
                    must[b as usize] = true;
                }
            }
        }
    }
    if eof_seen > 0 {
        for b in 0..size as usize {
            let n = emitted_count[b];
            if n == 0 {
                return Err(fail(tr, "first-pass-gap", format!("byte {b} of the file was never transmitted although the EOF was sent")));
            }
            if must[b] && n < 2 {
                return Err(fail(
                    tr,
                    "request-not-answered",
                    format!("byte {b} was requested by a NAK delivered in time but was transmitted only {n} time(s) (first pass included)"),
                ));
            }
            if n > 1 + asked[b] {
                return Err(fail(
                    tr,
                    "transmitted-more-than-requested",
                    format!("byte {b} was transmitted {n} times: once for the first pass plus {} requested range(s) containing it", asked[b]),
                ));
            }
        }
        if emitted_count.iter().any(|n| *n > 1) {
            labels.push("retransmission");
        }
    }
    if marker_requests > 0 {
        if meta_count < 2 {
            return Err(fail(tr, "metadata-request-not-answered", format!("{marker_requests} NAK(s) carried the 0-0 marker but Metadata was emitted {meta_count} time(s)")));
        }
        labels.push("metadata-retransmitted");
    } else if meta_count > 1 && !requests.iter().any(|(_, rs)| rs.iter().any(|(s, e)| *s == 0 && *e == 0)) {
        return Err(fail(tr, "metadata-unrequested", format!("Metadata emitted {meta_count} times without a 0-0 request")));
    }
    // never more Metadata PDUs than 0-0 requests (+ the first one)
    let markers_total = requests.iter().flat_map(|(_, rs)| rs.iter()).filter(|(s, e)| *s == 0 && *e == 0).count();
    if meta_count > 1 + markers_total {
        return Err(fail(tr, "metadata-unrequested", format!("Metadata emitted {meta_count} times for {markers_total} 0-0 request(s)")));
    }
    if eof_seen == 0 && finished_at.is_none() && term >= tr.end_ms {
        labels.push("no-eof-seen");
    }
    Ok(labels)
}

pub struct C07Part;
impl Part for C07Part {
    type Case = C07Case;
    fn name(&self) -> &'static str {
        "sender"
    }
    fn run(&self, case: &C07Case) -> CaseOut {
        let sc = &case.sc;
        let tr = run_scenario(sc);
        let mut out = CaseOut::ok();
        let size = sc.puts[0].file.as_ref().map(|f| f.size).unwrap_or(0) as u64;
        let segs = size.div_ceil(sc.entities[0].cfg.seg as u64);
        out = out
            .class_if(sc.puts[0].unack, "unack")
            .class_if(sc.entities[0].cfg.crc, "crc")
            .class_if(sc.entities[0].cfg.null_checksum, "null-checksum")
            .class_if(size == 0, "empty-file");
        if let Some(f) = common_failures(sc, &tr) {
            return out.failed(f.key, f.msg);
        }
        match check_sender(sc, &tr) {
            Ok(labels) => {
                if labels.contains(&"retransmission") || segs >= 3 {
                    out = out.nt(hash_json(sc));
                }
                for l in labels {
                    if !out.classes.contains(&l) {
                        out.classes.push(l);
                    }
                }
                out
            }
            Err(f) => out.failed(f.key, f.msg),
        }
    }
}

fn build(rng: &mut Prng, structured: Option<(u32, u32, u8)>) -> C07Case {
    let seg = *rng.pick(&[16u16, 24, 32, 64, 1024]);
    let cfg = CfgSpec {
        seg,
        max_count: 3,
        ti: 20,
        ta: 5,
        tn: 5,
        crc: rng.chance(1, 3),
        closure: rng.chance(1, 2),
        null_checksum: rng.chance(1, 4),
        nak: NakSpec { immediate: false, delay_ms: 0 },
        handlers: vec![],
    };
    let mut sc = Scenario::two_entities(cfg.clone(), cfg);
    sc.entities[1].present = false;
    sc.seed = rng.next();
    sc.tau_ms = *rng.pick(&[0u64, 1, 1, 10]);
    sc.lat_ms = rng.below(4);
    // both entity ids of a header have the same width
    let (idw, seqw) = (*rng.pick(&[1u8, 2, 4, 8]), *rng.pick(&[1u8, 2, 4, 8]));
    for e in sc.entities.iter_mut() {
        e.id_width = idw;
        e.seq_width = seqw;
    }
    let size = size_for(seg, rng.below(12) as u8);
    let class = match rng.below(4) {
        0 => ContentClass::Zero,
        1 => ContentClass::Neutral,
        _ => ContentClass::Random,
    };
    let unack = structured.is_none() && rng.chance(1, 8);
    sc.puts.push(simple_put(size, class, rng.next(), unack));
    if rng.chance(1, 4) {
        sc.puts[0].messages.push(b"hello".to_vec());
    }
    if rng.chance(1, 4) {
        sc.puts[0].requests.push(ReqSpec { action: 0, first: "created".into(), second: "".into() });
    }
    let pup = Pup::for_put(&sc, 0);
    let s = seg as u64;
    let sz = size as u64;
    let nseg = sz.div_ceil(s) + 3; // datagrams of the first pass: metadata + data + eof
    let mut t_last = 0u64;
    if !unack {
        let n_naks = match structured {
            Some(_) => 1,
            None => rng.below(5),
        };
        for k in 0..n_naks {
            let reqs: Vec<(u64, u64)> = match structured {
                Some((i, j, shape)) => {
                    let (a, b) = (i as u64 * s / 2, j as u64 * s / 2);
                    match shape {
                        0 => vec![(a, b)],
                        1 => vec![(a, b), (a, b)],
                        2 => vec![(b, a)],
                        _ => vec![(a, b), (0, 0)],
                    }
                }
                None => {
                    let n = rng.below(5);
                    (0..n)
                        .map(|_| match rng.below(10) {
                            0 => (0, 0),
                            1 => {
                                let x = rng.below(sz + 2 * s);
                                (x, x)
                            }
                            2 => {
                                // inverted
                                let x = rng.below(sz + s);
                                (x + 1 + rng.below(s), x)
                            }
                            3 => (rng.below(sz + 1), sz + rng.below(4 * s)),
                            4 => (sz + rng.below(2 * s), sz + 2 * s + rng.below(2 * s)),
                            5 => {
                                // longer than a segment
                                let x = rng.below(sz + 1);
                                (x, (x + s + 1 + rng.below(3 * s)).min(sz + 4 * s))
                            }
                            _ => {
                                let x = rng.below(sz + 1);
                                (x, (x + 1 + rng.below(s)).min(sz + s))
                            }
                        })
                        .collect()
                }
            };
            let bytes = pup.nak(reqs.iter().map(|r| r.0).min().unwrap_or(0), reqs.iter().map(|r| r.1).max().unwrap_or(0), &reqs);
            let trigger = if rng.chance(1, 2) {
                // while the first pass is running
                Trigger::OnOrdinal { from: 0, to: 1, ordinal: rng.below(nseg) as u32, delay_ms: rng.below(3) }
            } else {
                // after the EOF
                Trigger::OnIndication { entity: 0, put: 0, kind: "eof-sent".into(), delay_ms: 30 + 150 * k + rng.below(40) }
            };
            sc.actions.push(Action { trigger, entity: 1, kind: ActionKind::Inject { to: 0, as_from: 1, bytes } });
            t_last = t_last.max(30 + 150 * k + 40);
        }
        // ACK(EOF) and, at the end, Finished so that the sender can terminate
        sc.actions.push(Action {
            trigger: Trigger::OnIndication { entity: 0, put: 0, kind: "eof-sent".into(), delay_ms: 12 },
            entity: 1,
            kind: ActionKind::Inject { to: 0, as_from: 1, bytes: pup.ack_eof(Condition::NoError) },
        });
        sc.actions.push(Action {
            trigger: Trigger::OnIndication { entity: 0, put: 0, kind: "eof-sent".into(), delay_ms: t_last + 1500 },
            entity: 1,
            kind: ActionKind::Inject { to: 0, as_from: 1, bytes: pup.finished(Condition::NoError, true, FileStatusCode::Retained, vec![]) },
        });
    }
    sc.horizon_ms = 60_000;
    C07Case { sc }
}

pub fn run(ctx: &mut Ctx) {
    ctx.rule = "real sender vs puppet receiver. Generated: segment size in {16,24,32,64,1024}, 12 file sizes around segment boundaries (0 .. 12 seg), content random / zero / checksum-neutral, CRC, closure, \
Modular/Null checksum, id widths 1/2/4/8, serialisation delay 0/1/10 ms, optional message-to-user / filestore request in the Put; 0..4 NAK PDUs with 0..4 requests each of any shape (plain, the 0-0 marker, \
empty (x,x), inverted, straddling the end of file, entirely beyond it, longer than a segment, overshoot <= 4 seg), delivered after the k-th datagram of the first pass (+0..2 ms) or 30..600 ms after the EOF; \
plus the structured family: one NAK for every half-segment aligned range (i/2 seg, j/2 seg) of a file in 4 shapes (single, duplicated, inverted, with the 0-0 marker). 1 in 8 random cases is unacknowledged (no NAKs). \
Non-trivial = at least one NAK was answered by a retransmission, or the first pass has >= 3 segments; distinct by scenario."
        .into();
    ctx.assumptions = vec![
        "zero-length file-data PDUs (empty file, ranges beyond the end of file, empty requests) carry no bytes: tallied, not judged".into(),
        "a request is only required to be answered if it reached the sender at least ~60 ms (+ serialisation time) before the puppet's Finished".into(),
        "NAK ranges overshoot the file by at most 4 segments (a 2^32-byte range is a resource question, not this property)".into(),
    ];
    let part = C07Part;
    ctx.run_known_replays(&part);
    let seed = ctx.seed;
    // structured
    let mut combos = vec![];
    for i in 0..=10u32 {
        for j in 0..=12u32 {
            for shape in 0..4u8 {
                combos.push((i, j, shape));
            }
        }
    }
    ctx.section = "structured-ranges".into();
    let reps = ctx.tier.pick(4u64, 24);
    ctx.drive_indexed(&part, combos.len() as u64 * reps, false, |i| {
        let c = combos[(i / reps) as usize];
        let mut rng = Prng::new(mix(seed, i));
        build(&mut rng, Some(c))
    });
    ctx.section = "random-naks".into();
    let n = ctx.tier.pick(40_000u64, 2_000_000);
    ctx.drive_indexed(&part, n, false, |i| {
        let mut rng = Prng::new(mix(seed ^ 0x77, i));
        build(&mut rng, None)
    });
    ctx.section.clear();
}
