//! Helpers shared by the simulation-based properties.
#![allow(dead_code)]

use crate::common::*;
use crate::sim::*;
use cfdp_core::daemon::{FinishedIndication, Indication};
use cfdp_core::pdu::{Condition, DeliveryCode, FileStatusCode};

pub fn nak_variants() -> Vec<NakSpec> {
    vec![
        NakSpec { immediate: false, delay_ms: 0 },
        NakSpec { immediate: false, delay_ms: 50 },
        NakSpec { immediate: true, delay_ms: 0 },
        NakSpec { immediate: true, delay_ms: 50 },
        NakSpec { immediate: false, delay_ms: 1500 },
        NakSpec { immediate: true, delay_ms: 1500 },
    ]
}

pub fn simple_put(size: u32, class: ContentClass, seed: u64, unack: bool) -> PutSpec {
    PutSpec {
        at_ms: 0,
        from: 0,
        to: 1,
        unack,
        file: Some(FileSpec { size, class, seed }),
        src_name: "src.bin".into(),
        dst_name: "dst.bin".into(),
        requests: vec![],
        messages: vec![],
    }
}

/// (datagrams 0->1, datagrams 1->0) of the fault-free run
pub fn baseline_counts(sc: &Scenario) -> (u32, u32) {
    let mut b = sc.clone();
    b.faults.clear();
    b.blackouts.clear();
    b.actions.clear();
    b.health_check = false;
    let tr = run_scenario(&b);
    (tr.emitted(0, 1).len() as u32, tr.emitted(1, 0).len() as u32)
}

/// number of scripted faults / blackouts that actually hit a datagram
pub fn effective_faults(sc: &Scenario, tr: &Trace) -> usize {
    let mut n = 0;
    for f in &sc.faults {
        if tr.dgrams.iter().any(|d| !d.injected && d.from == f.from && d.to == f.to && d.ord == f.ordinal) {
            n += 1;
        }
    }
    n += tr.dgrams.iter().filter(|d| d.fate == Fate::Dropped("blackout")).count();
    n
}

pub fn is_success(f: &FinishedIndication) -> bool {
    f.report.condition == Condition::NoError
        && f.delivery_code == DeliveryCode::Complete
        && f.file_status == FileStatusCode::Retained
}

/// failures that are violations whatever the property: a panic in any task, a dead daemon, a PDU flood
pub fn common_failures(sc: &Scenario, tr: &Trace) -> Option<Fail> {
    if let Some(p) = tr.panics.first() {
        return Some(Fail {
            key: panic_site(p),
            msg: format!("a task of the daemon panicked: {p}\n{}", tr.render(200)),
        });
    }
    if let Some((e, how)) = tr.daemon_died.first() {
        return Some(Fail {
            key: "daemon-stopped".into(),
            msg: format!("the daemon of entity {e} stopped: {how}\n{}", tr.render(200)),
        });
    }
    if tr.budget_exceeded {
        return Some(Fail {
            key: "pdu-flood".into(),
            msg: format!("more than {} datagrams in one scenario\n{}", PDU_BUDGET, tr.render(120)),
        });
    }
    for (k, id) in tr.put_ids.iter().enumerate() {
        if let Some(id) = id {
            if *id != sc.put_id(k) {
                return Some(Fail {
                    key: "harness-put-id".into(),
                    msg: format!("put {k} got id {id}, harness predicted {}", sc.put_id(k)),
                });
            }
        }
    }
    None
}

pub fn fault_indications(tr: &Trace, entity: usize, id: cfdp_core::transaction::TransactionID) -> Vec<(u64, Condition, &'static str)> {
    tr.inds_of(entity, id)
        .into_iter()
        .filter_map(|r| match &r.ind {
            Indication::Fault(f) => Some((r.t, f.condition, "fault")),
            Indication::Abandon(f) => Some((r.t, f.condition, "abandon")),
            _ => None,
        })
        .collect()
}

/// a horizon that is generous for the given configuration (virtual ms)
pub fn generous_horizon(cfgs: &[&CfgSpec]) -> u64 {
    let mut h = 0u64;
    for c in cfgs {
        let per = (c.ti + c.tn + 2 * c.ta) as u64 * 1000 + c.nak.delay_ms;
        h = h.max((c.max_count as u64 + 1) * per * 3 + 20_000);
    }
    h
}
