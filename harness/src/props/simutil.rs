//! Helpers shared by the simulation-based properties.
#![allow(dead_code)]

use crate::common::*;
use crate::sim::*;
use cfdp_core::daemon::{FinishedIndication, Indication};
use cfdp_core::pdu::{Condition, DeliveryCode, FileStatusCode};

pub fn nak_variants() -> Vec<NakSpec> {
    vec![
        NakSpec { immediate: false, delay_ms: 0 },
        NakSpec { immediate: false, delay_ms: 50 },
        NakSpec { immediate: true, delay_ms: 0 },
        NakSpec { immediate: true, delay_ms: 50 },
        NakSpec { immediate: false, delay_ms: 1500 },
        NakSpec { immediate: true, delay_ms: 1500 },
    ]
}

pub fn simple_put(size: u32, class: ContentClass, seed: u64, unack: bool) -> PutSpec {
    PutSpec {
        at_ms: 0,
        from: 0,
        to: 1,
        unack,
        file: Some(FileSpec { size, class, seed }),
        src_name: "src.bin".into(),
        dst_name: "dst.bin".into(),
        requests: vec![],
        messages: vec![],
        forget: false,
    }
}

/// (datagrams 0->1, datagrams 1->0) of the fault-free run
pub fn baseline_counts(sc: &Scenario) -> (u32, u32) {
    let mut b = sc.clone();
    b.faults.clear();
    b.blackouts.clear();
    b.actions.clear();
    b.health_check = false;
    let tr = run_scenario(&b);
    (tr.emitted(0, 1).len() as u32, tr.emitted(1, 0).len() as u32)
}

/// number of scripted faults / blackouts that actually hit a datagram
pub fn effective_faults(sc: &Scenario, tr: &Trace) -> usize {
    let mut n = 0;
    for f in &sc.faults {
        if tr.dgrams.iter().any(|d| !d.injected && d.from == f.from && d.to == f.to && d.ord == f.ordinal) {
            n += 1;
        }
    }
    n += tr.dgrams.iter().filter(|d| d.fate == Fate::Dropped("blackout")).count();
    n
}

pub fn is_success(f: &FinishedIndication) -> bool {
    f.report.condition == Condition::NoError
        && f.delivery_code == DeliveryCode::Complete
        && f.file_status == FileStatusCode::Retained
}

/// failures that are violations whatever the property: a panic in any task, a dead daemon, a PDU flood
pub fn common_failures(sc: &Scenario, tr: &Trace) -> Option<Fail> {
    if let Some(p) = tr.panics.first() {
        return Some(Fail {
            key: panic_site(p),
            msg: format!("a task of the daemon panicked: {p}\n{}", tr.render(200)),
        });
    }
    if let Some((e, how)) = tr.daemon_died.first() {
        return Some(Fail {
            key: "daemon-stopped".into(),
            msg: format!("the daemon of entity {e} stopped: {how}\n{}", tr.render(200)),
        });
    }
    if tr.orphan_tasks > 0 {
        return Some(Fail {
            key: "orphaned-transaction-task".into(),
            msg: format!(
                "{} transaction task(s) are still alive at the end although the daemon answers for no such transaction: nothing can reach them any more (a suspended one stays forever)\n{}",
                tr.orphan_tasks,
                tr.render(200)
            ),
        });
    }
    if tr.budget_exceeded {
        return Some(Fail {
            key: "pdu-flood".into(),
            msg: format!("more than {} datagrams in one scenario\n{}", PDU_BUDGET, tr.render(120)),
        });
    }
    for (k, id) in tr.put_ids.iter().enumerate() {
        if let Some(id) = id {
            if *id != sc.put_id(k) {
                return Some(Fail {
                    key: "put-id-out-of-sequence".into(),
                    msg: format!("Put #{k} was answered with id {id}; counting the Puts of that entity gives {} (an id was reused or skipped)", sc.put_id(k)),
                });
            }
        }
    }
    None
}

pub fn fault_indications(tr: &Trace, entity: usize, id: cfdp_core::transaction::TransactionID) -> Vec<(u64, Condition, &'static str)> {
    tr.inds_of(entity, id)
        .into_iter()
        .filter_map(|r| match &r.ind {
            Indication::Fault(f) => Some((r.t, f.condition, "fault")),
            Indication::Abandon(f) => Some((r.t, f.condition, "abandon")),
            _ => None,
        })
        .collect()
}

/// a horizon that is generous for the given configuration (virtual ms)
pub fn generous_horizon(cfgs: &[&CfgSpec]) -> u64 {
    let mut h = 0u64;
    for c in cfgs {
        let per = (c.ti + c.tn + 2 * c.ta) as u64 * 1000 + c.nak.delay_ms;
        h = h.max((c.max_count as u64 + 1) * per * 3 + 20_000);
    }
    h
}

// ------------------------------------------------------------------------------------------------
// generic scenario strategies

use proptest::prelude::*;

pub fn cfg_strategy() -> impl Strategy<Value = CfgSpec> {
    (
        proptest::sample::select(vec![16u16, 24, 32, 64, 1024]),
        1u32..=4,
        (1i64..=5, 1i64..=5, 1i64..=5),
        any::<bool>(),
        any::<bool>(),
        any::<bool>(),
        proptest::sample::select(nak_variants()),
    )
        .prop_map(|(seg, max_count, (ti, ta, tn), crc, closure, null_checksum, nak)| CfgSpec {
            seg,
            max_count,
            ti,
            ta,
            tn,
            crc,
            closure,
            null_checksum,
            nak,
            handlers: vec![],
        })
}

/// file sizes around segment boundaries, up to 12 segments
pub fn size_for(seg: u16, pick: u8) -> u32 {
    let s = seg as u32;
    let table = [
        0,
        1,
        s - 1,
        s,
        s + 1,
        2 * s,
        3 * s - 1,
        3 * s + 1,
        4 * s,
        5 * s + 3,
        8 * s,
        12 * s,
    ];
    table[pick as usize % table.len()]
}

pub fn class_strategy(seg: u16) -> impl Strategy<Value = ContentClass> {
    prop_oneof![
        3 => Just(ContentClass::Random),
        1 => Just(ContentClass::Zero),
        2 => Just(ContentClass::ZeroRuns { seg }),
        3 => Just(ContentClass::Neutral),
        1 => (1u32..200).prop_map(|n| ContentClass::ZeroTail { n }),
    ]
}

pub fn fault_strategy(max_ord: u32, allow_corrupt: bool) -> impl Strategy<Value = Fault> {
    let kind = prop_oneof![
        5 => Just(FaultKind::Drop),
        2 => (0u64..60).prop_map(|extra_ms| FaultKind::Dup { extra_ms }),
        2 => (1u64..40).prop_map(|ms| FaultKind::Delay { ms }),
        2 => any::<u16>().prop_map(|frac| FaultKind::Corrupt { frac }),
    ];
    // most exchanges are short: favour low ordinals (and the reverse direction has only a few datagrams)
    let ordinal = prop_oneof![4 => 0u32..5, 3 => 0u32..10, 1 => 0..max_ord];
    (any::<bool>(), ordinal, kind).prop_map(move |(dir, ordinal, kind)| {
        let kind = match kind {
            FaultKind::Corrupt { .. } if !allow_corrupt => FaultKind::Drop,
            k => k,
        };
        let (from, to) = if dir { (0, 1) } else { (1, 0) };
        Fault { from, to, ordinal, kind }
    })
}

#[derive(Clone, Copy, Debug, PartialEq)]
pub enum Modes {
    Both,
    AckOnly,
    UnackOnly,
}

/// one put from entity 0 to entity 1 under a random configuration and fault script
pub fn scenario_strategy(modes: Modes, max_faults: usize) -> impl Strategy<Value = Scenario> {
    (cfg_strategy(), proptest::sample::select(nak_variants()), any::<u8>(), any::<u64>(), any::<bool>())
        .prop_flat_map(move |(cfg, rnak, pick, seed, unack)| {
            let seg = cfg.seg;
            let crc = cfg.crc;
            (
                Just(cfg),
                Just(rnak),
                Just(pick),
                Just(seed),
                Just(unack),
                class_strategy(seg),
                proptest::collection::vec(fault_strategy(30, crc), 0..=max_faults),
                proptest::sample::select(vec![0u64, 1, 1, 1, 10]),
                0u64..6,
                (proptest::sample::select(vec![1u8, 2, 4, 8]), proptest::sample::select(vec![1u8, 2, 4, 8]), proptest::sample::select(vec![0u8, 0, 0, 2, 3, 4])),
            )
        })
        .prop_map(move |(cfg, rnak, pick, seed, unack, class, faults, tau, lat, (idw, seqw, yields))| {
            let mut rcfg = cfg.clone();
            rcfg.nak = rnak;
            let mut sc = Scenario::two_entities(cfg.clone(), rcfg.clone());
            sc.seed = seed;
            sc.tau_ms = tau;
            sc.lat_ms = lat;
            sc.yields = yields;
            for e in sc.entities.iter_mut() {
                e.id_width = idw;
                e.seq_width = seqw;
            }
            let unack = match modes {
                Modes::Both => unack,
                Modes::AckOnly => false,
                Modes::UnackOnly => true,
            };
            sc.puts.push(simple_put(size_for(cfg.seg, pick), class, seed ^ 0xABCD, unack));
            sc.faults = faults;
            sc.horizon_ms = generous_horizon(&[&cfg, &rcfg]);
            sc
        })
}

// ------------------------------------------------------------------------------------------------
// the same scenario space built from a choice tape (libFuzzer mutates the tape; see fuzz/fuzz_targets/sim_chaos.rs)

pub fn fault_from_tape(t: &mut crate::wire::Tape, allow_corrupt: bool) -> Fault {
    let dir = t.bool();
    let ordinal = match t.below(8) {
        0..=3 => t.below(5) as u32,
        4..=6 => t.below(10) as u32,
        _ => t.below(30) as u32,
    };
    let kind = match t.below(11) {
        0..=4 => FaultKind::Drop,
        5 | 6 => FaultKind::Dup { extra_ms: t.below(60) as u64 },
        7 | 8 => FaultKind::Delay { ms: 1 + t.below(39) as u64 },
        _ if allow_corrupt => FaultKind::Corrupt { frac: t.u16() },
        _ => FaultKind::Drop,
    };
    let (from, to) = if dir { (0, 1) } else { (1, 0) };
    Fault { from, to, ordinal, kind }
}

/// mirrors `scenario_strategy(Modes::Both, 4)` plus the fault-handler sets of the C03 grid
pub fn scenario_from_tape(t: &mut crate::wire::Tape) -> Scenario {
    let naks = nak_variants();
    let handler_sets: [&[(u8, u8)]; 4] = [&[], &[(1, 3), (7, 3), (8, 3)], &[(1, 0), (7, 0), (8, 3)], &[(8, 0), (1, 3)]];
    let cfg = CfgSpec {
        seg: [16u16, 24, 32, 64, 1024][t.below(5)],
        max_count: 1 + t.below(4) as u32,
        ti: 1 + t.below(5) as i64,
        ta: 1 + t.below(5) as i64,
        tn: 1 + t.below(5) as i64,
        crc: t.bool(),
        closure: t.bool(),
        null_checksum: t.bool(),
        nak: naks[t.below(naks.len())].clone(),
        handlers: handler_sets[t.below(4)].to_vec(),
    };
    let mut rcfg = cfg.clone();
    rcfg.nak = naks[t.below(naks.len())].clone();
    let mut sc = Scenario::two_entities(cfg.clone(), rcfg.clone());
    sc.seed = t.u16() as u64;
    sc.tau_ms = [0u64, 1, 1, 1, 10][t.below(5)];
    sc.lat_ms = t.below(6) as u64;
    sc.yields = [0u8, 0, 2, 3][t.below(4)];
    let idw = [1u8, 2, 4, 8][t.below(4)];
    let seqw = [1u8, 2, 4, 8][t.below(4)];
    for e in sc.entities.iter_mut() {
        e.id_width = idw;
        e.seq_width = seqw;
    }
    let unack = t.bool();
    let class = match t.below(10) {
        0..=2 => ContentClass::Random,
        3 => ContentClass::Zero,
        4 | 5 => ContentClass::ZeroRuns { seg: cfg.seg },
        6..=8 => ContentClass::Neutral,
        _ => ContentClass::ZeroTail { n: 1 + t.below(199) as u32 },
    };
    let pick = t.u8();
    sc.puts.push(simple_put(size_for(cfg.seg, pick), class, sc.seed ^ 0xABCD, unack));
    let nf = t.below(5);
    for _ in 0..nf {
        let f = fault_from_tape(t, cfg.crc);
        sc.faults.push(f);
    }
    sc.horizon_ms = generous_horizon(&[&cfg, &rcfg]);
    sc
}
