//! C09 — the receiver's account of which bytes it holds is exact.
//!
//! Engine E1 (hook H2 re-exports `Segments`). Oracle: a bit set (small universe) or a naive
//! interval union (large offsets) is the reference model; after every merge we compare
//!   * the value returned by `merge` with |new \ old| and the running sum with |union|,
//!   * `end()` with the highest held byte + 1,
//!   * `is_complete(n)` with "[0,n) is a subset of held" for every n >= end (the precondition every
//!     caller establishes through the file-size check; n = 0 on an empty list included),
//!   * `gaps(s, e)` with the maximal uncovered sub-ranges of [s, e) for every window.

use crate::common::*;
use cfdp_daemon::verif::Segments;
use proptest::prelude::*;
use serde::{Deserialize, Serialize};

#[derive(Clone, Debug, Serialize, Deserialize)]
pub struct SegCase {
    /// universe size for the exhaustive window sweep (0 = large-offset mode: windows derived from the segments)
    pub m: u64,
    pub segs: Vec<(u64, u64)>,
}

/// naive reference: sorted disjoint maximal intervals
fn ref_union(segs: &[(u64, u64)]) -> Vec<(u64, u64)> {
    let mut v: Vec<(u64, u64)> = segs.to_vec();
    v.sort();
    let mut out: Vec<(u64, u64)> = vec![];
    for (s, e) in v {
        if let Some(last) = out.last_mut() {
            if s <= last.1 {
                if e > last.1 {
                    last.1 = e;
                }
                continue;
            }
        }
        out.push((s, e));
    }
    out
}
fn ref_len(u: &[(u64, u64)]) -> u128 {
    u.iter().map(|(s, e)| (*e - *s) as u128).sum()
}
fn ref_gaps(u: &[(u64, u64)], s: u64, e: u64) -> Vec<(u64, u64)> {
    let mut out = vec![];
    let mut p = s;
    for (a, b) in u {
        if *b <= p {
            continue;
        }
        if *a >= e {
            break;
        }
        if *a > p {
            out.push((p, *a));
        }
        p = std::cmp::max(p, *b);
        if p >= e {
            break;
        }
    }
    if p < e {
        out.push((p, e));
    }
    out
}
fn ref_complete(u: &[(u64, u64)], n: u64) -> bool {
    n == 0 || (u.first().map(|x| x.0 == 0 && x.1 >= n).unwrap_or(false))
}

pub struct SegPart;
impl Part for SegPart {
    type Case = SegCase;
    fn name(&self) -> &'static str {
        "segments"
    }
    fn run(&self, case: &SegCase) -> CaseOut {
        let mut out = CaseOut::ok();
        let segs = &case.segs;
        // non-trivial: an overlap or an out-of-order insert
        let mut nontrivial = false;
        for (i, a) in segs.iter().enumerate() {
            for b in &segs[..i] {
                if a.0 < b.1 && b.0 < a.1 {
                    nontrivial = true; // overlap (incl. duplicate)
                }
                if a.0 < b.0 {
                    nontrivial = true; // out of order
                }
            }
        }
        if nontrivial {
            out = out.nt(hash_of(&(case.m, segs)));
        }
        let res = guarded(|| check_sequence(case));
        match res {
            Err(p) => out.failed(panic_site(&p), format!("panic in Segments: {p} on {case:?}")),
            Ok(Err((key, msg))) => out.failed(key, format!("{msg}; case {case:?}")),
            Ok(Ok(labels)) => {
                for l in labels {
                    out = out.class(l);
                }
                out
            }
        }
    }
}

fn check_sequence(case: &SegCase) -> Result<Vec<&'static str>, (String, String)> {
    let mut labels = vec![];
    let mut s = Segments::new();
    // the empty list: a file of size 0 is complete at once
    if !s.is_complete(0) {
        return Err((
            "is_complete-empty-file".into(),
            "is_complete(0) is false on an empty segment list".into(),
        ));
    }
    if !s.gaps(0, 0).is_empty() {
        return Err(("gaps".into(), "gaps(0,0) on the empty list is not empty".into()));
    }
    let mut held: u128 = 0;
    for (k, seg) in case.segs.iter().enumerate() {
        let before = ref_union(&case.segs[..k]);
        let after = ref_union(&case.segs[..=k]);
        let expect_new = ref_len(&after) - ref_len(&before);
        let got = s.merge(*seg);
        if got as u128 != expect_new {
            let key = if got as u128 > expect_new {
                "merge-overcount"
            } else {
                "merge-undercount"
            };
            return Err((
                key.into(),
                format!(
                    "merge({seg:?}) as step {k} returned {got}, distinct new bytes = {expect_new}"
                ),
            ));
        }
        held += got as u128;
        if held != ref_len(&after) {
            return Err(("sum".into(), format!("running sum {held} != |union| after step {k}")));
        }
        let end = after.last().map(|x| x.1);
        if s.end() != end || s.end_or_0() != end.unwrap_or(0) {
            return Err((
                "end".into(),
                format!("end() = {:?}, reference {end:?} after step {k}", s.end()),
            ));
        }
        if s.len() != after.len() {
            // adjacency must be merged: callers use len() > 1 as "there is a gap"
            return Err((
                "len".into(),
                format!("len() = {}, maximal runs = {} after step {k}", s.len(), after.len()),
            ));
        }
        let end = end.unwrap_or(0);
        // is_complete for n >= end
        let mut ns = vec![end, end.saturating_add(1), end.saturating_add(7), u64::MAX];
        if case.m > 0 {
            ns.extend(end..=case.m + 1);
        }
        for n in ns {
            if n < end {
                continue;
            }
            let want = ref_complete(&after, n);
            let got = s.is_complete(n);
            if got != want {
                let key = if got {
                    "is_complete-true-with-hole"
                } else {
                    "is_complete-false-when-held"
                };
                return Err((
                    key.into(),
                    format!("is_complete({n}) = {got}, reference {want}, held {after:?} after step {k}"),
                ));
            }
        }
        // gaps over windows
        let windows: Vec<(u64, u64)> = if case.m > 0 {
            let mut w = vec![];
            for a in 0..=case.m + 1 {
                for b in a..=case.m + 1 {
                    w.push((a, b));
                }
            }
            w
        } else {
            // large-offset mode: windows from all interesting points
            let mut pts: Vec<u64> = vec![0, u64::MAX];
            for (a, b) in &case.segs[..=k] {
                for d in [0u64, 1] {
                    pts.push(a.saturating_sub(d));
                    pts.push(a.saturating_add(d));
                    pts.push(b.saturating_sub(d));
                    pts.push(b.saturating_add(d));
                }
            }
            pts.sort();
            pts.dedup();
            if pts.len() > 40 {
                // keep it quadratic but bounded: every 1+len/40-th point
                let step = pts.len() / 40 + 1;
                pts = pts.into_iter().step_by(step).collect();
            }
            let mut w = vec![];
            for (i, a) in pts.iter().enumerate() {
                for b in &pts[i..] {
                    w.push((*a, *b));
                }
            }
            w
        };
        for (a, b) in windows {
            let want = ref_gaps(&after, a, b);
            let got = s.gaps(a, b);
            if got != want {
                let key = if got.iter().any(|g| g.0 >= g.1) {
                    "gaps-empty-or-inverted"
                } else {
                    "gaps-wrong"
                };
                return Err((
                    key.into(),
                    format!("gaps({a},{b}) = {got:?}, reference {want:?}, held {after:?} after step {k}"),
                ));
            }
        }
    }
    if case.segs.len() >= 3 {
        labels.push("len>=3");
    }
    let u = ref_union(&case.segs);
    if u.len() >= 2 {
        labels.push("final-has-gap");
    }
    if u.first().map(|x| x.0 > 0).unwrap_or(false) {
        labels.push("hole-at-zero");
    }
    Ok(labels)
}

fn all_segments(m: u64) -> Vec<(u64, u64)> {
    let mut v = vec![];
    for s in 0..m {
        for e in s + 1..=m {
            v.push((s, e));
        }
    }
    v
}

fn long_strategy(max_len: usize) -> impl Strategy<Value = SegCase> {
    // clustered offsets so that overlaps, adjacency and containment are common, at several magnitudes
    let anchor = prop_oneof![
        Just(0u64),
        Just(1u64 << 16),
        Just((1u64 << 32) - 64),
        Just(1u64 << 63),
        Just(u64::MAX - 4096),
    ];
    let seg = (anchor, 0u64..2048, 1u64..300).prop_map(|(a, off, len)| {
        let s = a.saturating_add(off);
        let e = s.saturating_add(len);
        if s < e {
            (s, e)
        } else {
            (s - 1, s)
        }
    });
    // a second flavour: dense small universe (many merges of several stored segments at once)
    let dense = (0u64..64, 1u64..24).prop_map(|(s, l)| (s, s + l));
    prop_oneof![
        proptest::collection::vec(seg, 1..max_len).prop_map(|segs| SegCase { m: 0, segs }),
        proptest::collection::vec(dense, 1..max_len).prop_map(|segs| SegCase { m: 0, segs }),
    ]
}

pub fn run(ctx: &mut Ctx) {
    ctx.rule = "bounded-exhaustive: every sequence of <= L segments over a universe of M byte positions, \
after each step every is_complete(n>=end) and every gaps(s,e) window; plus proptest sequences of up to 200 \
segments clustered at offsets 0, 2^16, 2^32, 2^63, 2^64-1. Non-trivial = the sequence contains an overlap \
(incl. duplicate) or an out-of-order insert; distinct by (M, sequence)."
        .into();
    ctx.assumptions = vec![
        "is_complete(n) is only judged for n >= end of held data (callers check the file size first)".into(),
        "segments are non-empty (start < end): Segments::merge asserts it and the receiver never merges empty data".into(),
    ];
    let part = SegPart;
    ctx.run_known_replays(&part);
    let (m, l) = ctx.tier.pick((10u64, 3u32), (12u64, 3u32));
    exhaustive(ctx, &part, m, l);
    // four segments are needed for a new segment to bridge several stored ones from inside a gap
    let m4 = ctx.tier.pick(6u64, 8u64);
    exhaustive(ctx, &part, m4, 4);
    ctx.section = "random-long".into();
    let n = ctx.tier.pick(8_000u64, 100_000);
    ctx.drive_proptest(&part, long_strategy(ctx.tier.pick(80, 200)), n, 4000);
    ctx.section.clear();
}

fn exhaustive(ctx: &mut Ctx, part: &SegPart, m: u64, l: u32) {
    ctx.section = format!("exhaustive-M{m}-L{l}");
    let segs = all_segments(m);
    let k = segs.len() as u64;
    // sequences of length exactly l (shorter ones are their prefixes and are checked step by step),
    // plus the empty sequence
    let n = k.pow(l);
    ctx.drive_indexed(part, n, true, |i| {
        let mut i = i;
        let mut v = Vec::with_capacity(l as usize);
        for _ in 0..l {
            v.push(segs[(i % k) as usize]);
            i /= k;
        }
        SegCase { m, segs: v }
    });
    ctx.drive_indexed(part, 1, true, |_| SegCase { m, segs: vec![] });
    ctx.section.clear();
}
