//! C08 — receiver NAKs are well-formed and ask for exactly what is missing.
//!
//! Engine E3: a puppet sender (PDUs fabricated by the harness, delivered at chosen virtual times)
//! against a real receiving daemon in acknowledged mode. Generated: every subset of withheld data
//! segments and metadata for files of 0..6 segments, several arrival orders (in order, EOF first,
//! reversed, EOF in the middle, shuffled), the four NAK procedures, segment sizes that split NAK
//! lists over several PDUs, both file-size widths, optional Prompt(NAK) before EOF, and a second
//! phase in which the puppet answers the first NAK round with all, half or none of what is missing.
//! The model is the exact set of bytes / metadata / EOF delivered so far (the puppet knows).

use super::simutil::*;
use crate::common::*;
use crate::puppet::{modular, Pup};
use crate::sim::*;
use cfdp_core::daemon::Indication;
use cfdp_core::pdu::{Condition, Operations, PDUPayload};
use serde::{Deserialize, Serialize};

#[derive(Clone, Debug, Serialize, Deserialize)]
pub struct C08Case {
    pub sc: Scenario,
    pub seg: u16,
    pub size: u64,
    pub large: bool,
}

const STEP: u64 = 20;
const EPS: u64 = 14;

#[derive(Default, Debug)]
struct Model {
    meta_at: Vec<u64>,
    eof_at: Vec<(u64, u64)>,
    data: Vec<(u64, u64, u64)>,
    prompt_nak_at: Vec<u64>,
}

fn model_of(tr: &Trace, to: usize) -> Model {
    let mut m = Model::default();
    for (t, e, di) in &tr.deliveries {
        if *e != to {
            continue;
        }
        let Some(p) = &tr.dgrams[*di].pdu else { continue };
        match &p.payload {
            PDUPayload::FileData(cfdp_core::pdu::FileDataPDU::Unsegmented(fd)) => m.data.push((*t, fd.offset, fd.file_data.len() as u64)),
            PDUPayload::Directive(Operations::Metadata(_)) => m.meta_at.push(*t),
            PDUPayload::Directive(Operations::EoF(e)) if e.condition == Condition::NoError => m.eof_at.push((*t, e.file_size)),
            PDUPayload::Directive(Operations::Prompt(pr)) if pr.nak_or_keep_alive == cfdp_core::pdu::NakOrKeepAlive::Nak => m.prompt_nak_at.push(*t),
            _ => {}
        }
    }
    m
}

impl Model {
    fn meta_by(&self, t: u64) -> bool {
        self.meta_at.iter().any(|x| *x <= t)
    }
    fn eof_by(&self, t: u64) -> Option<u64> {
        self.eof_at.iter().filter(|x| x.0 <= t).map(|x| x.1).next()
    }
    fn max_end_by(&self, t: u64) -> u64 {
        self.data.iter().filter(|d| d.0 <= t).map(|d| d.1 + d.2).max().unwrap_or(0)
    }
    /// uncovered ranges of [0, limit) given everything delivered up to and including time t
    fn missing(&self, t: u64, limit: u64) -> Vec<(u64, u64)> {
        let mut segs: Vec<(u64, u64)> = self.data.iter().filter(|d| d.0 <= t && d.2 > 0).map(|d| (d.1, d.1 + d.2)).collect();
        segs.sort();
        let mut out = vec![];
        let mut p = 0u64;
        for (s, e) in segs {
            if s > p {
                out.push((p, s.min(limit)));
            }
            p = p.max(e);
            if p >= limit {
                break;
            }
        }
        if p < limit {
            out.push((p, limit));
        }
        out.into_iter().filter(|(s, e)| s < e).collect()
    }
}

fn subset_of(ranges: &[(u64, u64)], sup: &[(u64, u64)]) -> bool {
    ranges.iter().all(|(s, e)| sup.iter().any(|(a, b)| a <= s && e <= b))
}
fn union(ranges: &[(u64, u64)]) -> Vec<(u64, u64)> {
    let mut v: Vec<(u64, u64)> = ranges.iter().cloned().filter(|(s, e)| s < e).collect();
    v.sort();
    let mut out: Vec<(u64, u64)> = vec![];
    for (s, e) in v {
        if let Some(l) = out.last_mut() {
            if s <= l.1 {
                l.1 = l.1.max(e);
                continue;
            }
        }
        out.push((s, e));
    }
    out
}
fn covers(u: &[(u64, u64)], need: &[(u64, u64)]) -> bool {
    subset_of(need, u)
}

fn fail(tr: &Trace, key: &str, msg: String) -> Fail {
    Fail {
        key: key.to_string(),
        msg: format!("{msg}\n{}", tr.render(260)),
    }
}

pub fn check_naks(case: &C08Case, tr: &Trace) -> Result<Vec<&'static str>, Fail> {
    let sc = &case.sc;
    let recv = 1usize;
    let id = sc.put_id(0);
    let cfg = &sc.entities[recv].cfg;
    let fss: u64 = if case.large { 8 } else { 4 };
    let m = model_of(tr, recv);
    let mut labels = vec![];
    // only the first receive transaction with this id is modelled: PDUs arriving after its end start a new one (C11)
    let t_end = tr.terminated_at(recv, id).unwrap_or(u64::MAX);
    let naks: Vec<&Dgram> = tr.emitted(recv, 0).into_iter().filter(|d| kind_of(&d.pdu) == Kind::Nak && d.t <= t_end).collect();
    let te = m.eof_at.first().map(|x| x.0);
    let tau = sc.tau_ms;
    // ---------------- per PDU: well-formed, inside scope and file, sound
    for d in &naks {
        let Some(PDUPayload::Directive(Operations::Nak(n))) = d.pdu.as_ref().map(|p| &p.payload) else { continue };
        let hi_t = d.t.saturating_sub(3 * tau + 3); // state that certainly was known when the NAK was built
        let wire_len = u16::from_be_bytes([d.bytes[1], d.bytes[2]]) as u64 - if cfg.crc { 2 } else { 0 };
        if wire_len > case.seg as u64 + fss {
            return Err(fail(tr, "nak-too-large", format!("NAK data field of {wire_len} bytes exceeds segment size {} + {fss}", case.seg)));
        }
        if n.segment_requests.is_empty() {
            // an empty NAK ("nothing missing in this scope") is what a prompted receiver without gaps answers:
            // the statement constrains the requests a NAK carries, not their number
            labels.push("empty-nak");
        }
        let eof_hi = m.eof_by(hi_t);
        let limit_lo = m.eof_by(d.t).unwrap_or_else(|| m.max_end_by(d.t));
        let limit_hi = eof_hi.unwrap_or_else(|| m.max_end_by(d.t));
        if n.end_of_scope > limit_hi.max(limit_lo) {
            return Err(fail(
                tr,
                "nak-scope-beyond-file",
                format!("NAK at {} ms: end of scope {} beyond {} (EOF size / highest byte delivered)", d.t, n.end_of_scope, limit_hi.max(limit_lo)),
            ));
        }
        let missing_hi = m.missing(hi_t, limit_hi.max(limit_lo));
        for r in &n.segment_requests {
            let (s, e) = (r.start_offset, r.end_offset);
            if s == 0 && e == 0 {
                if m.meta_by(hi_t) {
                    return Err(fail(tr, "nak-metadata-marker-with-metadata-held", format!("NAK at {} ms carries the 0-0 marker although metadata arrived at {:?}", d.t, m.meta_at)));
                }
                if n.start_of_scope != 0 {
                    return Err(fail(tr, "nak-request-outside-scope", format!("0-0 marker with scope starting at {}", n.start_of_scope)));
                }
                continue;
            }
            if s >= e {
                return Err(fail(tr, "nak-empty-or-inverted-request", format!("NAK at {} ms requests ({s}, {e})", d.t)));
            }
            if s < n.start_of_scope || e > n.end_of_scope {
                return Err(fail(
                    tr,
                    "nak-request-outside-scope",
                    format!("NAK at {} ms: request ({s}, {e}) outside scope ({}, {})", d.t, n.start_of_scope, n.end_of_scope),
                ));
            }
            if !subset_of(&[(s, e)], &missing_hi) {
                return Err(fail(
                    tr,
                    "nak-requests-held-bytes",
                    format!("NAK at {} ms requests ({s}, {e}) but the bytes missing at {hi_t} ms were {missing_hi:?}", d.t),
                ));
            }
        }
    }
    // ---------------- deferred: nothing unsolicited before EOF
    if !cfg.nak.immediate {
        for d in &naks {
            let before_eof = te.map(|t| d.t < t).unwrap_or(true);
            if before_eof {
                // the answer to a Prompt(NAK), or its repetition by the NAK timer that the answer started (the prompted
                // exchange goes on like any other NAK sequence until it is answered)
                let tn_ms = cfg.tn as u64 * 1000;
                let licensed = m.prompt_nak_at.iter().any(|p| *p <= d.t && (d.t <= *p + EPS + 40 * tau || d.t + EPS >= *p + tn_ms));
                if !licensed {
                    return Err(fail(tr, "deferred-nak-before-eof", format!("deferred procedure: unsolicited NAK at {} ms, EOF delivered at {te:?}", d.t)));
                }
            }
        }
    }
    // ---------------- after EOF: quiet intervals (no data / metadata delivered) and what is requested in them
    let first_fault = tr
        .inds_of(recv, id)
        .iter()
        .filter_map(|r| match &r.ind {
            Indication::Fault(_) | Indication::Abandon(_) => Some(r.t),
            Indication::Finished(f) if f.report.condition != Condition::NoError => Some(r.t),
            _ => None,
        })
        .min()
        .unwrap_or(u64::MAX);
    let mut rounds = 0;
    if let Some(te) = te {
        let size = m.eof_at[0].1;
        // a receiver that verifies / finalizes the file while bytes or the metadata are still missing has not asked for them
        for r in tr.inds_of(recv, id) {
            let (t, what) = match &r.ind {
                Indication::Fault(f) if f.condition == Condition::FileChecksumFailure => (r.t, "declared FileChecksumFailure"),
                Indication::Finished(f) if f.report.condition == Condition::NoError || f.report.condition == Condition::FileChecksumFailure => (r.t, "finalized the delivery"),
                _ => continue,
            };
            if t > t_end {
                continue;
            }
            let missing = m.missing(t, size);
            if !missing.is_empty() || !m.meta_by(t) {
                let first = missing.first().map(|x| x.0 == 0).unwrap_or(false);
                return Err(fail(
                    tr,
                    if first { "finalized-with-first-segment-missing" } else { "finalized-with-missing-data" },
                    format!("at {t} ms the receiver {what} although {missing:?} had not been delivered (metadata delivered: {})", m.meta_by(t)),
                ));
            }
        }
        let d = cfg.nak.delay_ms;
        let tn = cfg.tn as u64 * 1000;
        // change points of the held state after EOF
        let mut cuts: Vec<u64> = vec![te];
        for (t, _, _) in &m.data {
            if *t > te {
                cuts.push(*t);
            }
        }
        for t in &m.meta_at {
            if *t > te {
                cuts.push(*t);
            }
        }
        cuts.sort();
        cuts.dedup();
        let run_end = t_end.min(first_fault).min(tr.end_ms);
        for (i, a) in cuts.iter().enumerate() {
            let b = cuts.get(i + 1).cloned().unwrap_or(run_end).min(run_end);
            if b <= *a {
                continue;
            }
            let missing = m.missing(*a, size);
            let meta_missing = !m.meta_by(*a);
            // everything requested while the state was this one (a NAK built in the interval reaches the link a little later)
            let mut reqs = vec![];
            let mut reqs_settled = vec![];
            let mut marker = false;
            let mut n_naks = 0;
            let mut first_nak = None;
            for nd in naks.iter().filter(|nd| nd.t > *a && nd.t <= b + tau) {
                if let Some(PDUPayload::Directive(Operations::Nak(n))) = nd.pdu.as_ref().map(|p| &p.payload) {
                    n_naks += 1;
                    first_nak.get_or_insert(nd.t);
                    for q in &n.segment_requests {
                        if q.start_offset == 0 && q.end_offset == 0 {
                            marker = true;
                        } else {
                            reqs.push((q.start_offset, q.end_offset));
                            // a NAK on the link right after the change may have been built just before it
                            if nd.t > *a + 3 * tau + 3 {
                                reqs_settled.push((q.start_offset, q.end_offset));
                            }
                        }
                    }
                }
            }
            if missing.is_empty() && !meta_missing {
                continue;
            }
            // is a NAK due in this interval at all?
            let due_by = if *a == te { te + d + EPS + 6 * tau } else { *a + tn + d + EPS + 6 * tau };
            if b < due_by + 20 {
                // too short to demand anything; what was requested must still be sound (checked per PDU above)
                continue;
            }
            if n_naks == 0 {
                return Err(fail(
                    tr,
                    if *a == te { "no-nak-round-after-eof" } else { "nak-round-not-repeated" },
                    format!(
                        "from {a} ms to {b} ms nothing arrived, {missing:?} was missing (metadata missing: {meta_missing}), EOF delivered at {te} ms, no fault before {first_fault} ms - but no NAK was emitted (due by {due_by} ms)"
                    ),
                ));
            }
            if let Some(t1) = first_nak {
                if *a == te && t1 > due_by {
                    return Err(fail(tr, "nak-round-late-after-eof", format!("EOF at {te} ms, delay {d} ms: first NAK only at {t1} ms")));
                }
            }
            let u = union(&reqs);
            if !covers(&u, &missing) {
                let first_missing = missing.first().map(|x| x.0 == 0).unwrap_or(false);
                return Err(fail(
                    tr,
                    if first_missing && !u.iter().any(|x| x.0 == 0) { "requests-leave-out-first-segment" } else { "requests-leave-out-missing-bytes" },
                    format!("between {a} ms and {b} ms the receiver requested {u:?} but {missing:?} was missing (file size {size})"),
                ));
            }
            if !subset_of(&union(&reqs_settled), &missing) {
                return Err(fail(tr, "requests-held-bytes", format!("between {a} ms and {b} ms the receiver requested {u:?}; missing: {missing:?}")));
            }
            if meta_missing && !marker {
                return Err(fail(tr, "requests-leave-out-metadata", format!("between {a} ms and {b} ms the metadata was missing but never requested")));
            }
            rounds += 1;
            labels.push("requests-checked-after-eof");
            if n_naks > 1 {
                labels.push("several-nak-pdus-in-interval");
            }
        }
    }
    // ---------------- immediate: a newly detected gap is requested at the next opportunity / after the delay if it persists
    if cfg.nak.immediate {
        let d = cfg.nak.delay_ms;
        let mut max_end = 0u64;
        let mut evs: Vec<(u64, u64, u64)> = m.data.clone();
        evs.sort();
        for (t0, off, len) in evs {
            let eof_before = te.map(|t| t <= t0).unwrap_or(false);
            if !eof_before && off > max_end && len > 0 {
                let gap = (max_end, off);
                let due = t0 + d;
                let eof_soon = te.map(|t| t <= due + EPS + 6 * tau).unwrap_or(false);
                if !eof_soon && due + 100 < first_fault {
                    // part of the gap still missing when the request is due
                    let still: Vec<(u64, u64)> = m.missing(due + EPS + 6 * tau, off).into_iter().filter(|(s, e)| *s >= gap.0 && *e <= gap.1).collect();
                    if !still.is_empty() {
                        let mut reqs = vec![];
                        for nd in naks.iter().filter(|nd| nd.t + 1 >= due && nd.t <= due + EPS + 8 * tau + 12) {
                            if let Some(PDUPayload::Directive(Operations::Nak(n))) = nd.pdu.as_ref().map(|p| &p.payload) {
                                reqs.extend(n.segment_requests.iter().map(|q| (q.start_offset, q.end_offset)));
                            }
                        }
                        if !covers(&union(&reqs), &still) {
                            return Err(fail(
                                tr,
                                "immediate-gap-not-requested",
                                format!("data at offset {off} delivered at {t0} ms opened the gap {gap:?}; still missing {still:?} at {due} ms (+delay {d}), requested then: {reqs:?}"),
                            ));
                        }
                        labels.push("immediate-gap-requested");
                    }
                }
            }
            max_end = max_end.max(off + len);
        }
    }
    if rounds >= 2 {
        labels.push(">=2-checked-intervals");
    }
    Ok(labels)
}

pub struct C08Part;
impl Part for C08Part {
    type Case = C08Case;
    fn name(&self) -> &'static str {
        "naks"
    }
    fn run(&self, case: &C08Case) -> CaseOut {
        let sc = &case.sc;
        let tr = run_scenario(sc);
        let mut out = CaseOut::ok();
        let m = model_of(&tr, 1);
        let withheld = m.meta_at.is_empty() || !m.missing(m.eof_at.first().map(|x| x.0).unwrap_or(0), case.size).is_empty();
        if withheld {
            out = out.nt(hash_json(sc));
        }
        out = out
            .class_if(m.meta_at.is_empty(), "metadata-withheld")
            .class_if(sc.entities[1].cfg.nak.immediate, "immediate")
            .class_if(!sc.entities[1].cfg.nak.immediate, "deferred")
            .class_if(sc.entities[1].cfg.nak.delay_ms > 0, "with-delay")
            .class_if(case.large, "large-file-flag")
            .class_if(case.size == 0, "empty-file");
        if let Some(f) = common_failures(sc, &tr) {
            return out.failed(f.key, f.msg);
        }
        match check_naks(case, &tr) {
            Ok(labels) => {
                for l in labels {
                    if !out.classes.contains(&l) {
                        out.classes.push(l);
                    }
                }
                out
            }
            Err(f) => out.failed(f.key, f.msg),
        }
    }
}

#[derive(Clone, Debug)]
pub struct Script {
    pub nsegs: u32,
    pub seg: u16,
    pub large: bool,
    pub nak: NakSpec,
    /// bit 0: metadata withheld, bit i+1: segment i withheld
    pub withheld: u32,
    /// 0 in order, 1 EOF first, 2 reversed, 3 EOF in the middle, 4 shuffled
    pub order: u8,
    /// 0 silent, 1 everything missing, 2 first half of what is missing, 3 everything + duplicate EOF
    pub answer: u8,
    pub prompt_before_eof: bool,
    pub last_short: bool,
    pub seed: u64,
    pub crc: bool,
    /// a pause longer than the NAK timeout before the i-th delivery of the first phase (data arriving after an
    /// unanswered NAK round has expired)
    pub pause_before: Option<u32>,
    /// length of that pause
    pub pause_ms: u64,
    /// hook H5 (Scenario::yields)
    pub yields: u8,
}

pub fn build(s: &Script) -> C08Case {
    let recv_cfg = CfgSpec {
        seg: s.seg,
        max_count: 3,
        ti: 60,
        ta: 2,
        tn: 2,
        crc: s.crc,
        closure: false,
        null_checksum: false,
        nak: s.nak.clone(),
        handlers: vec![],
    };
    let mut sc = Scenario::two_entities(recv_cfg.clone(), recv_cfg);
    sc.entities[0].present = false;
    sc.seed = s.seed;
    sc.yields = s.yields;
    sc.stop_when_quiet = true;
    let seg = s.seg as u64;
    let size: u64 = if s.nsegs == 0 { 0 } else { (s.nsegs as u64 - 1) * seg + if s.last_short { seg / 2 + 1 } else { seg } };
    sc.puts.push(simple_put(size as u32, ContentClass::Random, s.seed ^ 0xC08, false));
    let content = sc.puts[0].file.as_ref().unwrap().bytes();
    let mut pup = Pup::for_put(&sc, 0);
    pup.large = s.large;
    pup.crc = s.crc;
    let meta = pup.metadata(size, "src.bin", "dst.bin", false, false, vec![]);
    let eof = pup.eof(Condition::NoError, modular(&content), size);
    let data: Vec<Vec<u8>> = (0..s.nsegs as u64)
        .map(|i| {
            let a = (i * seg) as usize;
            let b = std::cmp::min(content.len(), a + seg as usize);
            pup.data(i * seg, &content[a..b])
        })
        .collect();
    // initial schedule
    #[derive(Clone, Copy, PartialEq)]
    enum It {
        M,
        D(u32),
        E,
        P,
    }
    let mut items: Vec<It> = vec![];
    let present: Vec<It> = std::iter::once(It::M)
        .chain((0..s.nsegs).map(It::D))
        .filter(|it| match it {
            It::M => s.withheld & 1 == 0,
            It::D(i) => s.withheld & (2 << i) == 0,
            _ => true,
        })
        .collect();
    match s.order {
        0 => {
            items.extend(present.iter().cloned());
            items.push(It::E);
        }
        1 => {
            items.push(It::E);
            items.extend(present.iter().cloned());
        }
        2 => {
            items.extend(present.iter().rev().cloned());
            items.push(It::E);
        }
        3 => {
            let h = present.len() / 2;
            items.extend(present[..h].iter().cloned());
            items.push(It::E);
            items.extend(present[h..].iter().cloned());
        }
        _ => {
            let mut v = present.clone();
            v.push(It::E);
            let mut rng = Prng::new(s.seed);
            for i in (1..v.len()).rev() {
                v.swap(i, rng.below(i as u64 + 1) as usize);
            }
            items = v;
        }
    }
    if s.prompt_before_eof {
        let pos = items.iter().position(|x| *x == It::E).unwrap_or(0);
        items.insert(pos, It::P);
    }
    let mut t = 10u64;
    let inject = |sc: &mut Scenario, t: u64, bytes: Vec<u8>| {
        sc.actions.push(Action {
            trigger: Trigger::AtMs(t),
            entity: 0,
            kind: ActionKind::Inject { to: 1, as_from: 0, bytes },
        });
    };
    for (ii, it) in items.iter().enumerate() {
        if s.pause_before == Some(ii as u32) {
            // either clearly after the NAK timer (2 s) expired, or so that this delivery falls into the very millisecond (+-1) in
            // which a NAK round started by the previous delivery expires
            t += s.pause_ms;
        }
        let bytes = match it {
            It::M => meta.clone(),
            It::D(i) => data[*i as usize].clone(),
            It::E => eof.clone(),
            It::P => pup.prompt(true),
        };
        inject(&mut sc, t, bytes);
        // a Prompt is answered at once: leave room before the next delivery
        t += if *it == It::P { 3 * STEP } else { STEP };
    }
    // second phase: answer the first round
    let t2 = t + s.nak.delay_ms + 700;
    let mut missing: Vec<It> = vec![];
    if s.withheld & 1 != 0 {
        missing.push(It::M);
    }
    for i in 0..s.nsegs {
        if s.withheld & (2 << i) != 0 {
            missing.push(It::D(i));
        }
    }
    let answer: Vec<It> = match s.answer {
        0 => vec![],
        2 => missing[..missing.len().div_ceil(2)].to_vec(),
        _ => missing.clone(),
    };
    let mut t = t2;
    if s.answer == 3 && !missing.is_empty() {
        // a duplicated EOF reaching the still open transaction
        inject(&mut sc, t, eof.clone());
        t += STEP;
    }
    for it in &answer {
        let bytes = match it {
            It::M => meta.clone(),
            It::D(i) => data[*i as usize].clone(),
            _ => unreachable!(),
        };
        inject(&mut sc, t, bytes);
        t += STEP;
    }
    // acknowledge a Finished, if one comes, so that the transaction can end
    sc.actions.push(Action {
        trigger: Trigger::OnIndication { entity: 1, put: 0, kind: "finished".into(), delay_ms: 30 },
        entity: 0,
        kind: ActionKind::Inject { to: 1, as_from: 0, bytes: pup.ack_finished(Condition::NoError) },
    });
    sc.horizon_ms = t + 12_000;
    C08Case {
        sc,
        seg: s.seg,
        size,
        large: s.large,
    }
}

pub fn run(ctx: &mut Ctx) {
    ctx.rule = "puppet sender vs real receiver, acknowledged mode, Tn = Ta = 2 s, limit 3. Exhaustive: files of 0..6 segments (last one full or short) x every subset of withheld items \
(metadata + each segment) x 5 arrival orders (in order, EOF first, reversed, EOF in the middle, shuffled) x 4 NAK procedures (deferred/immediate x 0/300 ms) for segment size 16 (one request per NAK PDU, \
lists split over several PDUs) ; sampled over segment sizes {16,24,32,64}, the large file-size flag (seg >= 32), CRC, a Prompt(NAK) before EOF, a pause longer than the NAK timeout before one of the deliveries (data arriving after an unanswered NAK round expired) and the puppet's answer to the first round \
(silent / everything / first half / everything + duplicate EOF). Non-trivial = at least one data segment or the metadata withheld; distinct by scenario."
        .into();
    ctx.assumptions = vec![
        "puppet deliveries are 20 ms apart and the state 'known when a NAK was built' is taken 3*tau+3 ms before it reaches the link; timing tolerance 14 ms + 6 tau".into(),
        "segment size >= 4 x file-size width (below that the NAK list capacity is zero)".into(),
    ];
    let part = C08Part;
    ctx.run_known_replays(&part);
    let naks = [
        NakSpec { immediate: false, delay_ms: 0 },
        NakSpec { immediate: false, delay_ms: 300 },
        NakSpec { immediate: true, delay_ms: 0 },
        NakSpec { immediate: true, delay_ms: 300 },
    ];
    let mut scripts = vec![];
    let max_n = ctx.tier.pick(5u32, 6);
    for nsegs in 0..=max_n {
        for withheld in 0..(1u32 << (nsegs + 1)) {
            for order in 0..5u8 {
                for (ni, nak) in naks.iter().enumerate() {
                    // answers rotate so that every kind is met for every subset
                    let answer = ((withheld as usize + order as usize + ni) % 4) as u8;
                    scripts.push(Script {
                        nsegs,
                        seg: 16,
                        large: false,
                        nak: nak.clone(),
                        withheld,
                        order,
                        answer,
                        prompt_before_eof: false,
                        last_short: (withheld + order as u32) % 2 == 1,
                        seed: ctx.seed ^ ((nsegs as u64) << 32 | (withheld as u64) << 8 | order as u64),
                        crc: false,
                        pause_before: None,
                        pause_ms: 0,
                        yields: 0,
                    });
                }
            }
        }
    }
    ctx.section = "every-subset-seg16".into();
    let n = scripts.len() as u64;
    ctx.drive_indexed(&part, n, true, |i| build(&scripts[i as usize]));
    // immediate procedure: a NAK round for a first gap goes unanswered; the delivery that opens a second gap falls into the
    // millisecond (+-1) in which that round's timer expires, the transaction task is polled late (hook H5) so that timer and PDU are
    // ready together, and the seeded select! takes either first: the new gap must be requested whichever comes first
    let mut scripts2 = vec![];
    for a in 1u32..=3 {
        for extra in 0u32..=2 {
            let nsegs = a + 5 + extra;
            for delta in [-1i64, 0, 1] {
                for yields in [2u8, 3, 4] {
                    for sd in 0..ctx.tier.pick(6u64, 24) {
                        scripts2.push(Script {
                            nsegs,
                            seg: 16,
                            large: false,
                            nak: NakSpec { immediate: true, delay_ms: 0 },
                            withheld: (2 << a) | (2 << (a + 2)),
                            order: 0,
                            answer: (sd % 4) as u8,
                            prompt_before_eof: false,
                            last_short: sd % 2 == 1,
                            seed: mix(ctx.seed ^ 0xC08E, sd * 131 + a as u64),
                            crc: false,
                            pause_before: Some(a + 2),
                            pause_ms: (2000 - STEP as i64 + delta) as u64,
                            yields,
                        });
                    }
                }
            }
        }
    }
    ctx.section = "nak-expiry-coincides-with-new-gap".into();
    let n2 = scripts2.len() as u64;
    ctx.drive_indexed(&part, n2, true, |i| build(&scripts2[i as usize]));
    // sampled variations
    let total = ctx.tier.pick(60_000u64, 1_500_000);
    let seed = ctx.seed;
    ctx.section = "sampled-variations".into();
    ctx.drive_indexed(&part, total, false, |i| {
        let mut rng = Prng::new(mix(seed, i));
        let large = rng.chance(1, 3);
        let seg = if large { *rng.pick(&[32u16, 64]) } else { *rng.pick(&[16u16, 24, 32, 64]) };
        let nsegs = rng.below(7) as u32;
        build(&Script {
            nsegs,
            seg,
            large,
            nak: naks[rng.below(4) as usize].clone(),
            withheld: rng.below(1 << (nsegs + 1)) as u32,
            order: rng.below(5) as u8,
            answer: rng.below(4) as u8,
            prompt_before_eof: rng.chance(1, 3),
            last_short: rng.chance(1, 2),
            seed: rng.next(),
            crc: rng.chance(1, 3),
            pause_before: if rng.chance(1, 3) { Some(rng.below(nsegs as u64 + 2) as u32) } else { None },
            // either clearly after the NAK timer (2 s) expired, or so that the delivery falls into the very millisecond (+-1) in
            // which a NAK round started by the previous delivery expires
            pause_ms: match rng.below(5) {
                0 | 1 => 2000 - STEP,
                2 => 2000 - STEP + 1,
                3 => 2000 - STEP - 1,
                _ => 2100 + rng.below(300),
            },
            yields: *rng.pick(&[0u8, 0, 3, 4]),
        })
    });
    ctx.section.clear();
}
