//! C15 — with the CRC option on, corrupted PDUs are rejected.
//!
//! Engine E1 (+ E4 target `crc_flip`). Corpus: every PDU type x {Small, Large} x id widths, CRC on.
//! Error patterns after the 4 fixed header octets: every single-bit flip, every pair within 64 bits
//! (+ sampled far pairs), every burst pattern up to length 8 (thorough: 12 everywhere, 16 on a subset)
//! at every position, sampled odd weights, and an adversarial constructive class: because the CRC-16
//! is linear, the harness finds (meet in the middle over single-bit syndromes) even-weight patterns
//! with zero syndrome and adds one flip of a spare bit, giving an odd-weight error.
//! Oracle: decode(corrupted) is Err (a panic counts as rejection, that is C06's business) or it is
//! Ok(p) with p == the original PDU. The unaltered encoding decodes to the original.

use crate::common::*;
use crate::wire;
use cfdp_core::pdu::*;
use proptest::prelude::*;
use serde::{Deserialize, Serialize};
use std::collections::HashMap;
use std::sync::OnceLock;

#[derive(Clone, Debug, Serialize, Deserialize)]
pub struct CrcCase {
    /// corpus entry name (wire::corpus_pdus)
    pub entry: String,
    /// bit positions to flip, counted from the first bit of the datagram (bit 0 = MSB of octet 0)
    pub flips: Vec<u32>,
    /// label of the error class
    pub class: String,
}

pub struct Entry {
    pub name: String,
    pub pdu: PDU,
    pub enc: Vec<u8>,
    /// single flips that still decode to the original (spare bits), computed once
    pub spare: Vec<u32>,
}

pub fn crc16_ref(data: &[u8]) -> u16 {
    let mut crc: u16 = 0xFFFF;
    for b in data {
        crc ^= (*b as u16) << 8;
        for _ in 0..8 {
            crc = if crc & 0x8000 != 0 { (crc << 1) ^ 0x1021 } else { crc << 1 };
        }
    }
    crc
}

fn flip(enc: &[u8], flips: &[u32]) -> Vec<u8> {
    let mut v = enc.to_vec();
    for f in flips {
        let (byte, bit) = ((*f / 8) as usize, 7 - (*f % 8));
        if byte < v.len() {
            v[byte] ^= 1 << bit;
        }
    }
    v
}

pub fn corpus() -> &'static Vec<Entry> {
    static C: OnceLock<Vec<Entry>> = OnceLock::new();
    C.get_or_init(|| {
        let mut out = vec![];
        for (name, pdu) in wire::corpus_pdus() {
            if pdu.header.crc_flag != CRCFlag::Present {
                continue;
            }
            let enc = pdu.clone().encode();
            if enc.len() >= 4095 {
                continue;
            }
            let mut spare = vec![];
            for bit in 32..(enc.len() as u32 * 8) {
                let m = flip(&enc, &[bit]);
                if let Ok(Ok(p)) = guarded(|| PDU::decode(&mut m.as_slice())) {
                    if p == pdu {
                        spare.push(bit);
                    }
                }
            }
            out.push(Entry {
                name,
                pdu,
                enc,
                spare,
            });
        }
        out
    })
}

fn entry(name: &str) -> Option<&'static Entry> {
    corpus().iter().find(|e| e.name == name)
}

pub struct CrcPart;
impl Part for CrcPart {
    type Case = CrcCase;
    fn name(&self) -> &'static str {
        "crc"
    }
    fn run(&self, case: &CrcCase) -> CaseOut {
        let mut out = CaseOut::ok();
        let e = match entry(&case.entry) {
            Some(e) => e,
            None => return out.failed("bad-entry", format!("no corpus entry {}", case.entry)),
        };
        // sanity / "an unaltered PDU is always accepted"
        if case.flips.is_empty() {
            return match guarded(|| PDU::decode(&mut e.enc.as_slice())) {
                Ok(Ok(p)) if p == e.pdu => {
                    if crc16_ref(&e.enc) != 0 {
                        out.failed("crc-not-ccitt", format!("the emitted CRC of {} is not CRC-16/IBM-3740 over header+data", e.name))
                    } else {
                        out.class("unaltered")
                    }
                }
                other => out.failed(
                    "unaltered-rejected",
                    format!("unaltered encoding of {} does not decode to the original: {other:?}", e.name),
                ),
            };
        }
        let semantic = case.flips.iter().filter(|b| !e.spare.contains(b)).count();
        if semantic > 0 {
            out = out.nt(hash_of(&(case.entry.as_str(), &case.flips)));
        }
        out.classes.push(match case.class.as_str() {
            "single" => "single-bit",
            "pair-near" => "pair-within-64",
            "pair-far" => "pair-far",
            "burst" => "burst",
            "odd" => "odd-weight",
            "zero-syndrome+spare" => "zero-syndrome+spare",
            _ => "other",
        });
        let m = flip(&e.enc, &case.flips);
        match guarded(|| PDU::decode(&mut m.as_slice())) {
            Err(_) => out.class("rejected-by-panic"),
            Ok(Err(_)) => out,
            Ok(Ok(p)) if p == e.pdu => out.class("accepted-equal-original"),
            Ok(Ok(p)) => {
                let key = if case.class == "zero-syndrome+spare" {
                    "accepted-different:zero-syndrome+spare".to_string()
                } else {
                    format!("accepted-different:{}", case.class)
                };
                out.failed(
                    key,
                    format!(
                        "corrupted PDU accepted as a different PDU: entry {} flips {:?} ({} semantic)\n original {:?}\n accepted {:?}",
                        e.name, case.flips, semantic, e.pdu, p
                    ),
                )
            }
        }
    }
}

/// single-bit syndromes (the CRC is linear): syn[b] = crc(E ^ e_b) over the whole datagram
fn syndromes(e: &Entry) -> Vec<u16> {
    let nbits = e.enc.len() * 8;
    (0..nbits as u32).map(|b| crc16_ref(&flip(&e.enc, &[b]))).collect()
}

/// even-weight (4-bit) zero-syndrome patterns on bits >= 32, each combined with one spare bit
fn adversarial(e: &Entry, max: usize) -> Vec<CrcCase> {
    let mut out = vec![];
    if e.spare.is_empty() {
        return out;
    }
    let syn = syndromes(e);
    let nbits = syn.len() as u32;
    let mut by_syn: HashMap<u16, Vec<(u32, u32)>> = HashMap::new();
    for a in 32..nbits {
        if e.spare.contains(&a) {
            continue;
        }
        for b in a + 1..nbits {
            if e.spare.contains(&b) {
                continue;
            }
            by_syn.entry(syn[a as usize] ^ syn[b as usize]).or_default().push((a, b));
        }
    }
    let mut keys: Vec<&u16> = by_syn.keys().collect();
    keys.sort();
    'outer: for k in keys {
        let v = &by_syn[k];
        for i in 0..v.len() {
            for j in i + 1..v.len() {
                let (a, b) = v[i];
                let (c, d) = v[j];
                if a == c || a == d || b == c || b == d {
                    continue;
                }
                let spare = e.spare[(out.len()) % e.spare.len()];
                let mut flips = vec![a, b, c, d, spare];
                flips.sort();
                out.push(CrcCase {
                    entry: e.name.clone(),
                    flips,
                    class: "zero-syndrome+spare".into(),
                });
                if out.len() >= max {
                    break 'outer;
                }
                // one quadruple per pair i is enough variety
                break;
            }
        }
    }
    out
}

fn bursts_at(e: &Entry, maxlen: u32, out: &mut Vec<CrcCase>) {
    let nbits = e.enc.len() as u32 * 8;
    for start in 32..nbits {
        for len in 1..=maxlen {
            if start + len > nbits {
                break;
            }
            let inner = len.saturating_sub(2);
            for mid in 0..(1u32 << inner) {
                let mut flips = vec![start];
                for k in 0..inner {
                    if mid & (1 << k) != 0 {
                        flips.push(start + 1 + k);
                    }
                }
                if len >= 2 {
                    flips.push(start + len - 1);
                }
                out.push(CrcCase {
                    entry: e.name.clone(),
                    flips,
                    class: "burst".into(),
                });
            }
        }
    }
}

fn random_strategy() -> impl Strategy<Value = CrcCase> {
    let n = corpus().len();
    (0..n, 0u32..6, proptest::collection::vec(any::<u16>(), 1..8), any::<u16>()).prop_map(|(ei, kind, raw, w)| {
        let e = &corpus()[ei];
        let nbits = e.enc.len() as u32 * 8;
        let span = nbits - 32;
        let pos = |r: u16| 32 + ((r as u32 * span) >> 16);
        let (flips, class): (Vec<u32>, &str) = match kind {
            0 => {
                // far pair
                let a = pos(raw[0]);
                let mut b = pos(w);
                if a == b {
                    b = 32 + (b - 32 + 1) % span;
                }
                (vec![a, b], "pair-far")
            }
            1 | 2 => {
                // odd weight 3/5/7
                let k = [3usize, 5, 7][(w % 3) as usize];
                let mut f: Vec<u32> = raw.iter().cycle().take(k).enumerate().map(|(i, r)| pos(r.wrapping_mul(i as u16 * 2 + 1))).collect();
                f.sort();
                f.dedup();
                if f.len() % 2 == 0 {
                    f.pop();
                }
                (f, "odd")
            }
            _ => {
                // burst of length 9..16 with random interior
                let len = 9 + (w % 8) as u32;
                let start = 32 + ((raw[0] as u32 * span.saturating_sub(len).max(1)) >> 16);
                let mut f = vec![start];
                let bits = raw.get(1).copied().unwrap_or(0x5555) as u32;
                for k in 0..len - 2 {
                    if bits & (1 << k) != 0 {
                        f.push(start + 1 + k);
                    }
                }
                f.push(start + len - 1);
                f.retain(|b| *b < nbits);
                (f, "burst")
            }
        };
        CrcCase {
            entry: e.name.clone(),
            flips,
            class: class.to_string(),
        }
    })
}

/// the libFuzzer input format of target `crc_flip`: bytes 0-1 select a corpus entry, every following pair of bytes a bit
/// to flip after the 4 fixed header octets; only error classes the CRC-16 is designed to catch are produced
pub fn fuzz_case(data: &[u8]) -> Option<CrcCase> {
    if data.len() < 4 {
        return None;
    }
    let c = corpus();
    let e = &c[((data[0] as usize) << 8 | data[1] as usize) % c.len()];
    let nbits = e.enc.len() as u32 * 8;
    let span = nbits - 32;
    let mut flips: Vec<u32> = data[2..]
        .chunks(2)
        .take(9)
        .map(|p| {
            let r = (p[0] as u32) << 8 | *p.get(1).unwrap_or(&0) as u32;
            32 + ((r * span) >> 16)
        })
        .collect();
    flips.sort();
    flips.dedup();
    let w = flips.len();
    let burst = flips.last().unwrap() - flips[0] < 16;
    if !(w == 1 || w == 2 || w % 2 == 1 || burst) {
        return None;
    }
    Some(CrcCase {
        entry: e.name.clone(),
        flips,
        class: "fuzz".into(),
    })
}

pub fn run(ctx: &mut Ctx) {
    ctx.rule = "corpus = every PDU type x {Small,Large} x 4 id-width combinations with the CRC on (each encoding < 4095 bytes). Per entry, on all bits after \
octet 4 (CRC field included): every single-bit flip; every pair of flips at distance <= 64; every burst pattern (first and last bit flipped, any interior) of length <= 8 \
(thorough: <= 12, and <= 16 on the small-flag single-width subset) at every position; proptest-sampled far pairs, odd weights 3/5/7 and bursts of length 9..16; and the \
constructive class: 4-bit zero-syndrome patterns found by meet-in-the-middle over single-bit syndromes, each combined with one spare-bit flip (odd weight 5). \
Spare bits are computed per entry as the single flips that still decode to the original. Non-trivial = the pattern touches at least one semantic (non-spare) bit; \
distinct by (entry, pattern)."
        .into();
    ctx.assumptions = vec![
        "flips are confined to the bits after the 4 fixed header octets, as the statement says".into(),
        "a decoder panic on a corrupted PDU counts as rejection here (it is a C06 violation)".into(),
    ];
    let part = CrcPart;
    ctx.run_known_replays(&part);
    let all = corpus();
    let thorough = ctx.tier == Tier::Thorough;

    ctx.section = "unaltered".into();
    ctx.drive_indexed(&part, all.len() as u64, true, |i| CrcCase {
        entry: all[i as usize].name.clone(),
        flips: vec![],
        class: "unaltered".into(),
    });

    // single flips and near pairs: all entries
    let mut cases = vec![];
    for e in all.iter() {
        let nbits = e.enc.len() as u32 * 8;
        for b in 32..nbits {
            cases.push(CrcCase {
                entry: e.name.clone(),
                flips: vec![b],
                class: "single".into(),
            });
            for d in 1..=64 {
                if b + d < nbits {
                    cases.push(CrcCase {
                        entry: e.name.clone(),
                        flips: vec![b, b + d],
                        class: "pair-near".into(),
                    });
                }
            }
        }
    }
    ctx.section = "single+near-pairs".into();
    ctx.drive_list(&part, cases, true);

    // bursts
    let mut cases = vec![];
    for e in all.iter() {
        let subset = e.name.ends_with("ids1-1") || e.name.ends_with("ids2-4");
        let maxlen = if thorough {
            if e.name.contains("/small+crc/ids1-1") {
                16
            } else {
                12
            }
        } else if subset {
            8
        } else {
            5
        };
        bursts_at(e, maxlen, &mut cases);
    }
    ctx.section = "bursts".into();
    ctx.drive_list(&part, cases, true);

    // adversarial constructive class
    let per = ctx.tier.pick(150usize, 1500);
    let mut cases = vec![];
    for e in all.iter() {
        cases.extend(adversarial(e, per));
    }
    ctx.section = "zero-syndrome+spare".into();
    ctx.note("crc", format!("{} constructed patterns over {} corpus entries with spare bits", cases.len(), all.iter().filter(|e| !e.spare.is_empty()).count()));
    ctx.drive_list(&part, cases, false);

    ctx.section = "random".into();
    let n = ctx.tier.pick(200_000u64, 3_000_000);
    ctx.drive_proptest(&part, random_strategy(), n, 500);
    ctx.section.clear();
    if ctx.tier == Tier::Thorough {
        let c = crate::fuzzrun::Campaign { target: "crc_flip", runs: 1_000_000, max_len: 24 };
        crate::fuzzrun::campaign_into_ctx(ctx, &c, |bytes| match fuzz_case(bytes) {
            Some(case) => (CrcPart.run(&case).fail, serde_json::to_value(&case).unwrap(), "crc"),
            None => (None, serde_json::Value::Null, "crc"),
        });
    }
}
