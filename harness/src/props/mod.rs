pub mod c01;
pub mod c02;
pub mod c03;
pub mod c04;
pub mod c05;
pub mod c06;
pub mod c07;
pub mod c08;
pub mod c09;
pub mod c10;
pub mod c11;
pub mod c12;
pub mod c13;
pub mod c14;
pub mod c15;
pub mod c16;
pub mod c17;
pub mod c18;
pub mod c19;
pub mod c20;
pub mod simutil;

use crate::common::*;
use serde_json::Value;

pub fn run_property(ctx: &mut Ctx) -> bool {
    match ctx.id.as_str() {
        "C01" => c01::run(ctx),
        "C02" => c02::run(ctx),
        "C03" => c03::run(ctx),
        "C04" => c04::run(ctx),
        "C05" => c05::run(ctx),
        "C06" => c06::run(ctx),
        "C07" => c07::run(ctx),
        "C08" => c08::run(ctx),
        "C09" => c09::run(ctx),
        "C10" => c10::run(ctx),
        "C11" => c11::run(ctx),
        "C12" => c12::run(ctx),
        "C13" => c13::run(ctx),
        "C14" => c14::run(ctx),
        "C15" => c15::run(ctx),
        "C16" => c16::run(ctx),
        "C17" => c17::run(ctx),
        "C18" => c18::run(ctx),
        "C19" => c19::run(ctx),
        "C20" => c20::run(ctx),
        _ => return false,
    }
    true
}

/// Re-execute one stored case through the plain part function (no proptest, no libFuzzer).
fn replay_part<P: Part>(part: &P, body: &Value) -> i32 {
    let case: P::Case = match serde_json::from_value(body["case"].clone()) {
        Ok(c) => c,
        Err(e) => {
            eprintln!("replay case does not parse for part {}: {e}", part.name());
            return 2;
        }
    };
    std::env::set_var("CFDP_VERIF_TRACE", "1");
    let out = part.run(&case);
    let id = body["property"].as_str().unwrap_or("?");
    match out.fail {
        Some(f) => {
            eprintln!("replay fails [{}]: {}", f.key, f.msg);
            println!(
                "VIOLATION property={} replay={}",
                id,
                body["__path"].as_str().unwrap_or("?")
            );
            1
        }
        None => {
            eprintln!("replay passes (property {id}, part {})", part.name());
            0
        }
    }
}

pub fn replay(body: &Value) -> i32 {
    let part = body["part"].as_str().unwrap_or("");
    match part {
        "segments" => replay_part(&c09::SegPart, body),
        "recovery" => replay_part(&c02::C02Part, body),
        "termination" => replay_part(&c03::C03Part, body),
        "final" => replay_part(&c04::C04Part, body),
        "isolation" => replay_part(&c11::C11Part, body),
        "identity" => replay_part(&c01::C01Part, body),
        "decode" => replay_part(&c06::DecPart, body),
        "crc" => replay_part(&c15::CrcPart, body),
        "udp" => replay_part(&c16::UdpPart, body),
        "unack" => replay_part(&c18::C18Part, body),
        "cancel" => replay_part(&c10::C10Part, body),
        "naks" => replay_part(&c08::C08Part, body),
        "sender" => replay_part(&c07::C07Part, body),
        "suspend" => replay_part(&c19::C19Part, body),
        "progress" => replay_part(&c20::C20Part, body),
        "limits" => replay_part(&c17::C17Part, body),
        "fs-model" => replay_part(&c13::FsModelPart, body),
        "fs-transaction" => replay_part(&c13::FsTxPart, body),
        "roundtrip" => replay_part(&c05::RtPart, body),
        "checksum" => replay_part(&c14::CkPart, body),
        "confinement" => replay_part(&c12::FsPart, body),
        other => {
            eprintln!("unknown part {other:?} in replay file");
            2
        }
    }
}
