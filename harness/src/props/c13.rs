//! C13 — filestore requests act as CFDP defines, once, in order, reported truthfully.
//!
//! Core part (E1, model-based): an in-memory tree is the reference model; request histories over a
//! small namespace {f1, f2, d1, d1/f, d2, nx, nx/f} run against `FileStore::process_request`; after
//! every request the returned status equals the model's and the full recursive snapshot of the
//! directory equals the model (so a failed request provably changed nothing).
//! Transaction part (E2): Puts carrying 0..4 requests, with or without a file, under single
//! faults and under a forced delivery failure: requests run iff the delivery succeeded, once, in
//! order, the rest NotPerformed after the first failure, and the same response list reaches the
//! receiving user, every Finished PDU and the sending user.

use super::simutil::*;
use crate::common::*;
use crate::sim::*;
use cfdp_core::filestore::{FileStore, NativeFileStore};
use cfdp_core::pdu::*;
use proptest::prelude::*;
use serde::{Deserialize, Serialize};
use std::collections::BTreeMap;

// ------------------------------------------------------------------------------------------------
// model

#[derive(Clone, Debug, PartialEq, Eq)]
pub enum Node {
    File(Vec<u8>),
    Dir,
}
/// path (relative, '/'-separated, no trailing slash) -> node; parents of every entry are present as Dir
#[derive(Clone, Debug, PartialEq, Eq, Default)]
pub struct ModelFs(pub BTreeMap<String, Node>);

impl ModelFs {
    fn parent_ok(&self, p: &str) -> bool {
        match p.rfind('/') {
            None => true,
            Some(i) => self.0.get(&p[..i]) == Some(&Node::Dir),
        }
    }
    fn is_file(&self, p: &str) -> bool {
        matches!(self.0.get(p), Some(Node::File(_)))
    }
    fn is_dir(&self, p: &str) -> bool {
        matches!(self.0.get(p), Some(Node::Dir))
    }
    fn exists(&self, p: &str) -> bool {
        self.0.contains_key(p)
    }
    fn remove_tree(&mut self, p: &str) {
        let pre = format!("{p}/");
        self.0.retain(|k, _| k != p && !k.starts_with(&pre));
    }

    /// apply one request; returns the status CFDP / the implementation's documented behaviour demands
    pub fn apply(&mut self, action: &FileStoreAction, a: &str, b: &str) -> FileStoreStatus {
        use FileStoreStatus as S;
        match action {
            FileStoreAction::CreateFile => {
                if self.exists(a) || !self.parent_ok(a) || a.is_empty() {
                    S::CreateFile(CreateFileStatus::NotAllowed)
                } else {
                    self.0.insert(a.into(), Node::File(vec![]));
                    S::CreateFile(CreateFileStatus::Successful)
                }
            }
            FileStoreAction::DeleteFile => {
                if self.is_file(a) {
                    self.0.remove(a);
                    S::DeleteFile(DeleteFileStatus::Successful)
                } else {
                    S::DeleteFile(DeleteFileStatus::FileDoesNotExist)
                }
            }
            FileStoreAction::RenameFile => {
                if !self.is_file(a) {
                    S::RenameFile(RenameStatus::OldFilenameDoesNotExist)
                } else if self.is_file(b) {
                    S::RenameFile(RenameStatus::NewFilenameAlreadyExists)
                } else if self.exists(b) || !self.parent_ok(b) || b.is_empty() {
                    S::RenameFile(RenameStatus::RenameNotAllowed)
                } else {
                    let n = self.0.remove(a).unwrap();
                    self.0.insert(b.into(), n);
                    S::RenameFile(RenameStatus::Successful)
                }
            }
            FileStoreAction::AppendFile => {
                if !self.is_file(a) {
                    S::AppendFile(AppendStatus::Filename1DoesNotExist)
                } else if !self.is_file(b) {
                    S::AppendFile(AppendStatus::Filename2DoesNotExist)
                } else {
                    let add = match self.0.get(b) {
                        Some(Node::File(c)) => c.clone(),
                        _ => vec![],
                    };
                    if let Some(Node::File(c)) = self.0.get_mut(a) {
                        c.extend(add);
                    }
                    S::AppendFile(AppendStatus::Successful)
                }
            }
            FileStoreAction::ReplaceFile => {
                if !self.is_file(a) {
                    S::ReplaceFile(ReplaceStatus::Filename1DoesNotExist)
                } else if !self.is_file(b) {
                    S::ReplaceFile(ReplaceStatus::Filename2DoesNotExist)
                } else {
                    let new = self.0.get(b).cloned().unwrap();
                    self.0.insert(a.into(), new);
                    S::ReplaceFile(ReplaceStatus::Successful)
                }
            }
            FileStoreAction::CreateDirectory => {
                if self.exists(a) || !self.parent_ok(a) || a.is_empty() {
                    S::CreateDirectory(CreateDirectoryStatus::DirectoryCannotBeCreated)
                } else {
                    self.0.insert(a.into(), Node::Dir);
                    S::CreateDirectory(CreateDirectoryStatus::Successful)
                }
            }
            FileStoreAction::RemoveDirectory => {
                if self.is_dir(a) {
                    self.remove_tree(a);
                    S::RemoveDirectory(RemoveDirectoryStatus::Successful)
                } else {
                    S::RemoveDirectory(RemoveDirectoryStatus::DirectoryDoesNotExist)
                }
            }
            FileStoreAction::DenyFile => {
                if self.is_file(a) {
                    self.0.remove(a);
                    S::DenyFile(DenyStatus::Successful)
                } else {
                    // pinned by the repository's tests: denying a missing file reports NotAllowed
                    S::DenyFile(DenyStatus::NotAllowed)
                }
            }
            FileStoreAction::DenyDirectory => {
                if self.is_dir(a) {
                    self.remove_tree(a);
                    S::DenyDirectory(DenyStatus::Successful)
                } else {
                    S::DenyDirectory(DenyStatus::NotAllowed)
                }
            }
        }
    }

    pub fn materialize(&self, root: &std::path::Path) {
        for (k, n) in &self.0 {
            match n {
                Node::Dir => std::fs::create_dir_all(root.join(k)).unwrap(),
                Node::File(c) => {
                    if let Some(p) = root.join(k).parent() {
                        std::fs::create_dir_all(p).unwrap();
                    }
                    std::fs::write(root.join(k), c).unwrap()
                }
            }
        }
    }

    pub fn read_back(root: &std::path::Path, ignore: &[&str]) -> ModelFs {
        fn walk(base: &std::path::Path, dir: &std::path::Path, out: &mut BTreeMap<String, Node>, ignore: &[&str]) {
            let Ok(rd) = std::fs::read_dir(dir) else { return };
            for e in rd.flatten() {
                let p = e.path();
                let rel = p.strip_prefix(base).unwrap().to_string_lossy().to_string();
                if ignore.contains(&rel.as_str()) {
                    continue;
                }
                if p.is_dir() {
                    out.insert(rel, Node::Dir);
                    walk(base, &p, out, ignore);
                } else {
                    out.insert(rel, Node::File(std::fs::read(&p).unwrap_or_default()));
                }
            }
        }
        let mut m = BTreeMap::new();
        walk(root, root, &mut m, ignore);
        ModelFs(m)
    }
}

pub const NAMES: [&str; 7] = ["f1", "f2", "d1", "d1/f", "d2", "nx", "nx/f"];

pub fn initial_states() -> Vec<ModelFs> {
    let mk = |entries: &[(&str, Option<&[u8]>)]| {
        let mut m = BTreeMap::new();
        for (k, v) in entries {
            m.insert(
                k.to_string(),
                match v {
                    Some(c) => Node::File(c.to_vec()),
                    None => Node::Dir,
                },
            );
        }
        ModelFs(m)
    };
    vec![
        mk(&[("f1", Some(b"one")), ("f2", Some(b"TWO-2")), ("d1", None), ("d1/f", Some(b"inner")), ("d2", None)]),
        mk(&[]),
        mk(&[("f1", Some(b"")), ("d1", None), ("d2", None), ("d2/x", Some(b"x"))]),
        mk(&[("f2", Some(b"zz")), ("nx", Some(b"a file where others expect a directory")), ("d1", None)]),
    ]
}

#[derive(Clone, Debug, Serialize, Deserialize, PartialEq, Eq, Hash)]
pub struct ReqCase {
    pub initial: usize,
    /// (action code, first name index, second name index)
    pub reqs: Vec<(u8, u8, u8)>,
}

pub struct FsModelPart;
impl Part for FsModelPart {
    type Case = ReqCase;
    fn name(&self) -> &'static str {
        "fs-model"
    }
    fn run(&self, case: &ReqCase) -> CaseOut {
        let mut out = CaseOut::ok();
        let root = worker_dir().join("c13");
        let _ = std::fs::remove_dir_all(&root);
        std::fs::create_dir_all(&root).unwrap();
        let mut model = initial_states()[case.initial % initial_states().len()].clone();
        model.materialize(&root);
        let store = NativeFileStore::new(camino::Utf8PathBuf::from_path_buf(root.clone()).unwrap());
        let mut ok = 0;
        let mut bad = 0;
        for (k, (code, i, j)) in case.reqs.iter().enumerate() {
            let action = action_from(*code);
            let a = NAMES[*i as usize % NAMES.len()];
            let b = NAMES[*j as usize % NAMES.len()];
            let before = model.clone();
            let want = model.apply(&action, a, b);
            let req = FileStoreRequest {
                action_code: action.clone(),
                first_filename: a.into(),
                second_filename: b.into(),
            };
            let got = match guarded(|| store.process_request(&req)) {
                Ok(r) => r,
                Err(p) => return out.failed(panic_site(&p), format!("process_request panicked: {p}; request #{k} {action:?}({a}, {b}) in {case:?}")),
            };
            if got.action_and_status != want {
                return out.failed(
                    format!("status:{action:?}"),
                    format!(
                        "request #{k} {action:?}({a}, {b}) returned {:?}, the model says {want:?}; state before: {:?}; case {case:?}",
                        got.action_and_status,
                        before.0.keys().collect::<Vec<_>>()
                    ),
                );
            }
            if got.first_filename.as_str() != a || got.second_filename.as_str() != b {
                return out.failed("response-names", format!("response names {:?}/{:?} differ from the request {a}/{b}", got.first_filename, got.second_filename));
            }
            let real = ModelFs::read_back(&root, &[]);
            if real != model {
                let key = if want.is_fail() { format!("failed-request-changed-state:{action:?}") } else { format!("wrong-effect:{action:?}") };
                return out.failed(
                    key,
                    format!(
                        "after request #{k} {action:?}({a}, {b}) -> {want:?} the directory is {:?} but the model is {:?}; before: {:?}; case {case:?}",
                        real.0, model.0, before.0
                    ),
                );
            }
            if want.success() {
                ok += 1;
            } else {
                bad += 1;
            }
        }
        if ok > 0 && bad > 0 {
            out = out.nt(hash_of(case));
        }
        out.class_if(ok > 0, "has-success").class_if(bad > 0, "has-failure")
    }
}

// ------------------------------------------------------------------------------------------------
// transaction part

#[derive(Clone, Debug, Serialize, Deserialize)]
pub struct TxCase {
    pub sc: Scenario,
    pub initial: usize,
    /// the delivery is made to fail (the checksum of a data PDU's bytes is wrong on arrival)
    pub forced_failure: bool,
}

pub struct FsTxPart;
impl Part for FsTxPart {
    type Case = TxCase;
    fn name(&self) -> &'static str {
        "fs-transaction"
    }
    fn run(&self, case: &TxCase) -> CaseOut {
        let sc = &case.sc;
        let tr = run_scenario(sc);
        let mut out = CaseOut::ok();
        let p = &sc.puts[0];
        let id = sc.put_id(0);
        let eff = effective_faults(sc, &tr);
        if eff > 0 || !p.requests.is_empty() {
            out = out.class_if(eff > 0, "fault-hit").class_if(p.file.is_some(), "with-file").class_if(p.file.is_none(), "requests-only");
        }
        if let Some(f) = common_failures(sc, &tr) {
            return out.failed(f.key, f.msg);
        }
        let fail = |key: &str, msg: String| Fail {
            key: key.to_string(),
            msg: format!("{msg}\n{}", tr.render(200)),
        };
        let initial = initial_states()[case.initial % initial_states().len()].clone();
        // did the receiver deliver successfully?
        let r_fin = tr.finished_inds(p.to, id);
        // (the first transaction for this id may end undelivered - e.g. EOF overtaking the Metadata in unacknowledged mode - and a
        // retransmission may then be delivered by a second one: the requests run after *a* successful delivery)
        let r_succ = r_fin.iter().find(|(_, f)| f.report.condition == Condition::NoError && f.delivery_code == DeliveryCode::Complete);
        let delivered = r_succ.is_some();
        // expected responses and final state
        let mut model = initial.clone();
        let mut expected: Vec<FileStoreStatus> = vec![];
        if delivered {
            let mut failed = false;
            for r in &p.requests {
                let action = action_from(r.action);
                if failed {
                    expected.push(FileStoreStatus::get_not_performed(&action));
                } else {
                    let st = model.apply(&action, &r.first, &r.second);
                    failed = st.is_fail();
                    expected.push(st);
                }
            }
        }
        let ok_fail = expected.iter().any(|s| s.success()) && expected.iter().any(|s| s.is_fail());
        if ok_fail || eff > 0 {
            out = out.nt(hash_json(sc));
        }
        out = out.class_if(delivered, "delivered").class_if(!delivered, "not-delivered");
        // side effects: the receiver's tree (minus the delivered file) equals the model
        let real = ModelFs::read_back(&tr.roots[p.to], &[p.dst_name.as_str()]);
        if real != model {
            let key = if !delivered {
                "requests-executed-without-delivery"
            } else {
                "side-effects-differ"
            };
            return out.failed(
                key,
                format!(
                    "delivered = {delivered}; requests {:?}; receiver's filestore is {:?} but the model (requests applied once, in order) is {:?}\n{}",
                    p.requests,
                    real.0,
                    model.0,
                    tr.render(200)
                ),
            );
        }
        // responses: receiver's Finished indication(s), every Finished PDU, the sender's indication
        if let Some((t, f)) = r_succ.or(r_fin.first()) {
            let got: Vec<FileStoreStatus> = f.filestore_responses.iter().map(|r| r.action_and_status).collect();
            if delivered && got != expected {
                let f = fail("responses-wrong:receiver-indication", format!("receiver's Finished indication at {t} ms carries {got:?}, expected {expected:?}"));
                return out.failed(f.key, f.msg);
            }
            for (i, r) in f.filestore_responses.iter().enumerate() {
                if delivered && (r.first_filename.as_str() != p.requests[i].first || r.second_filename.as_str() != p.requests[i].second) {
                    let f = fail("responses-wrong:names", format!("response #{i} names {:?}/{:?} differ from the request", r.first_filename, r.second_filename));
                    return out.failed(f.key, f.msg);
                }
            }
        }
        if delivered {
            for d in tr.emitted(p.to, p.from) {
                if let Some(PDUPayload::Directive(Operations::Finished(f))) = d.pdu.as_ref().map(|x| &x.payload) {
                    if f.condition == Condition::NoError {
                        let got: Vec<FileStoreStatus> = f.filestore_response.iter().map(|r| r.action_and_status).collect();
                        if got != expected {
                            let f = fail("responses-wrong:finished-pdu", format!("Finished PDU at {} ms carries {got:?}, expected {expected:?}", d.t));
                            return out.failed(f.key, f.msg);
                        }
                    }
                }
            }
            if !p.unack {
                for (t, f) in tr.finished_inds(p.from, id) {
                    if f.report.condition == Condition::NoError {
                        let got: Vec<FileStoreStatus> = f.filestore_responses.iter().map(|r| r.action_and_status).collect();
                        if got != expected {
                            let f = fail("responses-wrong:sender-indication", format!("sender's Finished indication at {t} ms carries {got:?}, expected {expected:?}"));
                            return out.failed(f.key, f.msg);
                        }
                    }
                }
            }
        }
        out
    }
}

fn request_strategy() -> impl Strategy<Value = ReqSpec> {
    (0u8..9, 0usize..NAMES.len(), 0usize..NAMES.len()).prop_map(|(action, i, j)| ReqSpec {
        action,
        first: NAMES[i].to_string(),
        second: NAMES[j].to_string(),
    })
}

fn tx_strategy() -> impl Strategy<Value = TxCase> {
    (
        proptest::collection::vec(request_strategy(), 0..5),
        0usize..4,
        any::<bool>(),
        any::<bool>(),
        proptest::option::of(fault_strategy(10, false)),
        any::<u64>(),
        any::<bool>(),
        proptest::sample::select(nak_variants()),
    )
        .prop_map(|(requests, initial, with_file, forced_failure, fault, seed, unack, nak)| {
            let cfg = CfgSpec {
                seg: 32,
                max_count: 3,
                ti: 9,
                ta: 2,
                tn: 3,
                crc: false,
                closure: unack,
                null_checksum: false,
                nak,
                handlers: vec![],
            };
            let mut sc = Scenario::two_entities(cfg.clone(), cfg.clone());
            sc.seed = seed;
            let mut put = simple_put(70, ContentClass::Random, seed ^ 0x13, unack);
            put.dst_name = "delivered.bin".into();
            if !with_file {
                put.file = None;
            }
            put.requests = requests;
            sc.puts.push(put);
            // the receiver's filestore starts in one of the initial states
            for (k, n) in &initial_states()[initial].0 {
                match n {
                    Node::Dir => sc.preload.push((1, format!("{k}/"), vec![])),
                    Node::File(c) => sc.preload.push((1, k.clone(), c.clone())),
                }
            }
            if let Some(f) = fault {
                // unacknowledged mode cannot recover losses: keep duplicates and delays only
                let f = if unack && f.kind == FaultKind::Drop { Fault { kind: FaultKind::Dup { extra_ms: 7 }, ..f } } else { f };
                sc.faults.push(f);
            }
            let forced = forced_failure && with_file;
            if forced {
                // a data PDU whose bytes are not the file's: injected copy with a flipped byte replaces the original
                sc.faults.push(Fault { from: 0, to: 1, ordinal: 2, kind: FaultKind::Drop });
                let pup = crate::puppet::Pup::for_put(&sc, 0);
                let mut content = sc.puts[0].file.as_ref().unwrap().bytes();
                content[40] ^= 0xFF;
                sc.actions.push(Action {
                    trigger: Trigger::OnOrdinal { from: 0, to: 1, ordinal: 2, delay_ms: 1 },
                    entity: 0,
                    kind: ActionKind::Inject { to: 1, as_from: 0, bytes: pup.data(32, &content[32..64]) },
                });
            }
            sc.horizon_ms = generous_horizon(&[&cfg]);
            TxCase { sc, initial, forced_failure: forced }
        })
}

pub fn run(ctx: &mut Ctx) {
    ctx.rule = "core: namespace {f1,f2,d1,d1/f,d2,nx,nx/f}, 4 initial states, 9 actions x 7 x 7 names: every sequence of <= 2 requests (exhaustive; thorough: every sequence of 3 over a thinned first request) and \
proptest sequences of up to 30 requests; after each request status and full recursive snapshot are compared with the in-memory model. transaction: Puts with 0..4 requests, with/without a file, both modes, \
6 NAK procedures, an optional fault (drop/duplicate/delay) and optionally a forced checksum failure (a data PDU replaced by one with wrong bytes). Non-trivial = the history contains at least one succeeding and one \
failing request (core) / the response list mixes success and failure or a fault hit (transaction); distinct by case."
        .into();
    ctx.assumptions = vec![
        "the model follows the statuses the repository's tests pin (e.g. DenyFile of a missing file = NotAllowed, CreateDirectory of an existing one = DirectoryCannotBeCreated)".into(),
        "names are relative and inside the root; removing the root itself is out of the domain".into(),
    ];
    let core = FsModelPart;
    ctx.run_known_replays(&core);
    let n1 = 9u64 * 7 * 7;
    // length 1 and 2, every initial state: exhaustive
    ctx.section = "sequences<=2-exhaustive".into();
    ctx.drive_indexed(&core, 4 * n1, true, |i| {
        let r = i % n1;
        ReqCase { initial: (i / n1) as usize, reqs: vec![((r % 9) as u8, ((r / 9) % 7) as u8, (r / 63) as u8)] }
    });
    ctx.drive_indexed(&core, 4 * n1 * n1, true, |i| {
        let init = i / (n1 * n1);
        let r1 = (i / n1) % n1;
        let r2 = i % n1;
        ReqCase {
            initial: init as usize,
            reqs: vec![((r1 % 9) as u8, ((r1 / 9) % 7) as u8, (r1 / 63) as u8), ((r2 % 9) as u8, ((r2 / 9) % 7) as u8, (r2 / 63) as u8)],
        }
    });
    if ctx.tier == Tier::Thorough {
        // length 3: first request restricted to the 63 single-name forms (second name = first), others full
        ctx.section = "sequences=3".into();
        ctx.drive_indexed(&core, 63 * n1 * n1, true, |i| {
            let r0 = i / (n1 * n1);
            let r1 = (i / n1) % n1;
            let r2 = i % n1;
            ReqCase {
                initial: 0,
                reqs: vec![
                    ((r0 % 9) as u8, (r0 / 9) as u8, (r0 / 9) as u8),
                    ((r1 % 9) as u8, ((r1 / 9) % 7) as u8, (r1 / 63) as u8),
                    ((r2 % 9) as u8, ((r2 / 9) % 7) as u8, (r2 / 63) as u8),
                ],
            }
        });
    }
    ctx.section = "random-long".into();
    let n = ctx.tier.pick(6_000u64, 80_000);
    let strat = (0usize..4, proptest::collection::vec((0u8..9, 0u8..7, 0u8..7), 1..30)).prop_map(|(initial, reqs)| ReqCase { initial, reqs });
    ctx.drive_proptest(&core, strat, n, 2000);

    let tx = FsTxPart;
    ctx.run_known_replays(&tx);
    ctx.section = "transactions".into();
    let n = ctx.tier.pick(20_000u64, 250_000);
    ctx.drive_proptest(&tx, tx_strategy(), n, 300);
    ctx.section.clear();
}
