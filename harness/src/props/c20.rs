//! C20 — progress figures reported to users and peers are truthful.
//!
//! Engine E2. Scenarios provoke every place where a progress figure is reported: Prompt(keep-alive)
//! at any point (receiver answers with a KeepAlive PDU), suspend/resume at either side (Resumed
//! indication), blackouts that lead to limit faults (Fault / Abandon indications), all under
//! duplicates, drops and retransmissions.
//! Oracle: a receiver figure equals the number of distinct file bytes delivered to it after some
//! delivery j in the window between the trigger and the emission; a sender figure equals the highest
//! offset+length over the file data it had put out by then (same window rule); no figure exceeds
//! the file size; figures of one transaction at one entity never decrease.

use super::c03::bound_ms;
use super::simutil::*;
use crate::common::*;
use crate::sim::*;
use cfdp_core::daemon::Indication;
use cfdp_core::pdu::{FileDataPDU, Operations, PDUPayload};
use proptest::prelude::*;
use serde::{Deserialize, Serialize};

#[derive(Clone, Debug, Serialize, Deserialize)]
pub struct C20Case {
    pub sc: Scenario,
}

fn fail(tr: &Trace, key: &str, msg: String) -> Fail {
    Fail {
        key: key.to_string(),
        msg: format!("{msg}\n{}", tr.render(240)),
    }
}

pub fn check_progress(sc: &Scenario, tr: &Trace) -> Result<Vec<&'static str>, Fail> {
    let p = &sc.puts[0];
    let id = sc.put_id(0);
    let size = p.file.as_ref().map(|f| f.size as u64).unwrap_or(0);
    let tau = sc.tau_ms;
    let mut labels = vec![];
    // ---- sender model: prefix maxima of offset+len over file data as it appears on the link
    let mut s_pref: Vec<(u64, u64)> = vec![]; // (link time, max so far)
    let mut mx = 0u64;
    for d in tr.emitted(p.from, p.to) {
        if let Some(PDUPayload::FileData(FileDataPDU::Unsegmented(fd))) = d.pdu.as_ref().map(|x| &x.payload) {
            mx = mx.max(fd.offset + fd.file_data.len() as u64);
            s_pref.push((d.t, mx));
        }
    }
    let sender_allowed = |t: u64| -> Vec<u64> {
        // data PDUs on the link before t-2 were certainly produced; those up to t + 2 tau + 2 may have been
        let lo = s_pref.iter().filter(|x| x.0 + 2 <= t).count();
        let hi = s_pref.iter().filter(|x| x.0 <= t + 2 * tau + 2).count();
        (lo..=hi).map(|k| if k == 0 { 0 } else { s_pref[k - 1].1 }).collect()
    };
    // ---- receiver model: distinct bytes after each delivery (first instance of the transaction only)
    let r_end = tr.terminated_at(p.to, id).unwrap_or(u64::MAX);
    let mut held = vec![false; size as usize + 1];
    let mut r_pref: Vec<(u64, u64)> = vec![];
    let mut distinct = 0u64;
    // The moment a delivered datagram is *processed* is not the moment it reached the entity: the transport handler does not
    // look at its inbox while it is busy serialising an outgoing PDU (tau), so under sustained outgoing traffic a datagram can
    // wait several tau. The receiver's own FileSegmentRecv indication marks the processing exactly; the bytes are counted
    // from its offset and length (the puppet families deliver exactly what the indication then names).
    // Only the *time* is taken from the indication; which bytes arrived is taken from the delivered datagram itself.
    let seg_inds: Vec<(u64, u64)> = tr
        .inds_of(p.to, id)
        .iter()
        .filter_map(|r| match &r.ind {
            Indication::FileSegmentRecv(f) => Some((r.t, f.offset)),
            _ => None,
        })
        .collect();
    let mut used = vec![false; seg_inds.len()];
    let mut processed: Vec<(u64, u64, u64)> = vec![]; // (processing time, offset, len)
    for (t, to, di) in &tr.deliveries {
        if *to != p.to {
            continue;
        }
        let d = &tr.dgrams[*di];
        if d.corrupted {
            continue;
        }
        if let Some(PDUPayload::FileData(FileDataPDU::Unsegmented(fd))) = d.pdu.as_ref().map(|x| &x.payload) {
            if let Some(k) = (0..seg_inds.len()).find(|k| !used[*k] && seg_inds[*k].0 >= *t && seg_inds[*k].1 == fd.offset) {
                used[k] = true;
                processed.push((seg_inds[k].0, fd.offset, fd.file_data.len() as u64));
            }
        }
    }
    // stable: datagrams are processed in the order of their delivery
    processed.sort_by_key(|x| x.0);
    for (t, off, len) in processed {
        if t > r_end {
            continue;
        }
        for b in off..off + len {
            if (b as usize) < held.len() && !held[b as usize] {
                held[b as usize] = true;
                distinct += 1;
            } else if b as usize >= held.len() {
                distinct += 1;
            }
        }
        r_pref.push((t, distinct));
    }
    let receiver_allowed = |t: u64| -> Vec<u64> {
        let lo = r_pref.iter().filter(|x| x.0 + 2 * tau + 4 <= t).count();
        let hi = r_pref.iter().filter(|x| x.0 <= t).count();
        (lo..=hi).map(|k| if k == 0 { 0 } else { r_pref[k - 1].1 }).collect()
    };
    // ---- figures
    let check = |who: &'static str, entity: usize, t: u64, what: &'static str, fig: u64, last: &mut u64| -> Result<(), Fail> {
        let allowed = if who == "sender" { sender_allowed(t) } else { receiver_allowed(t) };
        if fig > size {
            return Err(fail(tr, &format!("progress-exceeds-file-size:{who}:{what}"), format!("{who} (entity {entity}) reported progress {fig} in {what} at {t} ms; the file has {size} bytes")));
        }
        if !allowed.contains(&fig) {
            return Err(fail(
                tr,
                &format!("progress-wrong:{who}:{what}"),
                format!("{who} (entity {entity}) reported progress {fig} in {what} at {t} ms; the model allows {allowed:?} (file size {size})"),
            ));
        }
        if fig < *last {
            return Err(fail(tr, &format!("progress-decreases:{who}"), format!("{who} reported {fig} at {t} ms after {last} earlier")));
        }
        *last = fig;
        Ok(())
    };
    let mut last_s = 0u64;
    let mut last_r = 0u64;
    // indications, in time order
    for r in &tr.inds {
        let (what, fig, rid) = match &r.ind {
            Indication::Fault(f) => ("fault", f.progress, f.id),
            Indication::Abandon(f) => ("abandon", f.progress, f.id),
            Indication::Resumed(f) => ("resumed", f.progress, f.id),
            _ => continue,
        };
        if rid != id {
            continue;
        }
        if r.entity == p.from {
            check("sender", r.entity, r.t, what, fig, &mut last_s)?;
            if fig > 0 && fig < size {
                labels.push("sender-figure-midway");
            }
            labels.push("sender-figure");
        } else if r.entity == p.to && r.t <= r_end {
            check("receiver", r.entity, r.t, what, fig, &mut last_r)?;
            if fig > 0 && fig < size {
                labels.push("receiver-figure-midway");
            }
            labels.push("receiver-figure");
        }
    }
    // keep-alive PDUs
    let mut last_k = 0u64;
    for d in tr.emitted(p.to, p.from) {
        // at (or after) the millisecond in which the first receive transaction ended, a straggler may already have
        // started a second one for the same id, which truthfully holds nothing: such answers are not judged
        if d.t >= r_end {
            continue;
        }
        if let Some(PDUPayload::Directive(Operations::KeepAlive(k))) = d.pdu.as_ref().map(|x| &x.payload) {
            // the PDU was built up to 2 tau before it reached the link
            let allowed: Vec<u64> = {
                let lo = r_pref.iter().filter(|x| x.0 + 3 * tau + 4 <= d.t).count();
                let hi = r_pref.iter().filter(|x| x.0 <= d.t).count();
                (lo..=hi).map(|k| if k == 0 { 0 } else { r_pref[k - 1].1 }).collect()
            };
            if k.progress > size {
                return Err(fail(tr, "progress-exceeds-file-size:receiver:keepalive", format!("KeepAlive at {} ms says {} but the file has {size} bytes", d.t, k.progress)));
            }
            if !allowed.contains(&k.progress) {
                return Err(fail(
                    tr,
                    "progress-wrong:receiver:keepalive",
                    format!("KeepAlive PDU at {} ms reports {}; the receiver held {allowed:?} distinct bytes in the window (file size {size})", d.t, k.progress),
                ));
            }
            if k.progress < last_k {
                return Err(fail(tr, "progress-decreases:receiver", format!("KeepAlive {} after {last_k}", k.progress)));
            }
            last_k = k.progress;
            labels.push("keepalive");
            if k.progress > 0 && k.progress < size {
                labels.push("receiver-figure-midway");
            }
        }
    }
    Ok(labels)
}

pub struct C20Part;
impl Part for C20Part {
    type Case = C20Case;
    fn name(&self) -> &'static str {
        "progress"
    }
    fn run(&self, case: &C20Case) -> CaseOut {
        let sc = &case.sc;
        let tr = run_scenario(sc);
        let mut out = CaseOut::ok();
        if let Some(f) = common_failures(sc, &tr) {
            return out.failed(f.key, f.msg);
        }
        match check_progress(sc, &tr) {
            Ok(labels) => {
                if labels.contains(&"sender-figure-midway") || labels.contains(&"receiver-figure-midway") {
                    out = out.nt(hash_json(sc));
                }
                for l in labels {
                    if !out.classes.contains(&l) {
                        out.classes.push(l);
                    }
                }
                if out.classes.is_empty() {
                    out.classes.push("no-figure-reported");
                }
                out
            }
            Err(f) => out.failed(f.key, f.msg),
        }
    }
}

fn strategy() -> impl Strategy<Value = C20Case> {
    (
        scenario_strategy(Modes::AckOnly, 3),
        proptest::collection::vec((0u32..16, any::<bool>(), 0u64..3), 0..4),
        proptest::option::of((any::<bool>(), 0u32..14, 0u64..4000)),
        proptest::option::of((0u32..14, 0u8..3)),
        proptest::option::weighted(0.3, (any::<bool>(), 1u32..10, 0u64..2)),
    )
        .prop_map(|(mut sc, prompts, suspend, blackout, cancel)| {
            // several segments, so that "midway" exists
            if let Some(f) = sc.puts[0].file.as_mut() {
                let seg = sc.entities[0].cfg.seg as u32;
                if f.size < 3 * seg {
                    f.size += 4 * seg + 5;
                }
            }
            for (k, dir, delay) in prompts {
                sc.actions.push(Action {
                    trigger: Trigger::OnOrdinal { from: if dir { 0 } else { 1 }, to: if dir { 1 } else { 0 }, ordinal: if dir { k } else { k % 4 }, delay_ms: delay },
                    entity: 0,
                    kind: ActionKind::PromptKeepAlive { put: 0 },
                });
            }
            if let Some((at_recv, k, len)) = suspend {
                let who = if at_recv { 1 } else { 0 };
                sc.actions.push(Action {
                    trigger: Trigger::OnOrdinal { from: 0, to: 1, ordinal: k, delay_ms: 0 },
                    entity: who,
                    kind: ActionKind::Suspend { put: 0 },
                });
                sc.actions.push(Action {
                    trigger: Trigger::OnIndication { entity: who, put: 0, kind: "suspended".into(), delay_ms: len },
                    entity: who,
                    kind: ActionKind::Resume { put: 0 },
                });
            }
            // a cancel in the middle of the file: the figures reported afterwards (resumed, fault, abandon) still are what was held / sent
            if let Some((at_recv, k, d)) = cancel {
                sc.actions.push(Action {
                    trigger: Trigger::OnOrdinal { from: 0, to: 1, ordinal: k, delay_ms: d },
                    entity: if at_recv { 1 } else { 0 },
                    kind: ActionKind::Cancel { put: 0 },
                });
            }
            if let Some((k, which)) = blackout {
                match which {
                    0 => sc.blackouts.push(Blackout::from_ordinal(0, 1, k)),
                    1 => sc.blackouts.push(Blackout::from_ordinal(1, 0, k % 5)),
                    _ => {
                        sc.blackouts.push(Blackout::from_ordinal(0, 1, k));
                        sc.blackouts.push(Blackout::from_ordinal(1, 0, k % 5));
                    }
                }
            }
            sc.horizon_ms = 3 * bound_ms(&sc, 0).max(bound_ms(&sc, 1)) + 20_000;
            C20Case { sc }
        })
}

/// puppet sender delivering arbitrary (overlapping, duplicated, out-of-order, unaligned) segments, each followed by a
/// keep-alive prompt: the receiver's reported progress must be the number of distinct bytes it holds
fn puppet_overlaps(seed: u64) -> C20Case {
    let mut rng = Prng::new(seed);
    let seg = *rng.pick(&[16u16, 32, 64]);
    let cfg = CfgSpec { seg, max_count: 3, ti: 30, ta: 5, tn: 5, crc: rng.chance(1, 4), closure: false, null_checksum: false, nak: NakSpec { immediate: rng.chance(1, 2), delay_ms: 0 }, handlers: vec![] };
    let mut sc = Scenario::two_entities(cfg.clone(), cfg);
    sc.entities[0].present = false;
    sc.seed = rng.next();
    let size = 40 + rng.below(200) as u32;
    sc.puts.push(simple_put(size, ContentClass::Random, rng.next(), false));
    let content = sc.puts[0].file.as_ref().unwrap().bytes();
    let pup = crate::puppet::Pup::for_put(&sc, 0);
    let mut t = 10u64;
    let inject = |sc: &mut Scenario, t: u64, bytes: Vec<u8>| {
        sc.actions.push(Action { trigger: Trigger::AtMs(t), entity: 0, kind: ActionKind::Inject { to: 1, as_from: 0, bytes } });
    };
    inject(&mut sc, t, pup.metadata(size as u64, "src.bin", "dst.bin", false, false, vec![]));
    let n = 3 + rng.below(8);
    let mut starts: Vec<u64> = vec![0];
    for _ in 0..n {
        t += 20;
        // offsets: often the start of an earlier segment, or its end, or anywhere
        let off = match rng.below(4) {
            0 => *rng.pick(&starts),
            1 => rng.below(size as u64),
            _ => (rng.below(size as u64 / 8 + 1) * 8).min(size as u64 - 1),
        };
        let len = (1 + rng.below(3 * seg as u64 / 2 + 8)).min(size as u64 - off).min(seg as u64 * 2);
        starts.push(off);
        starts.push(off + len);
        starts.retain(|x| *x < size as u64);
        inject(&mut sc, t, pup.data(off, &content[off as usize..(off + len) as usize]));
        inject(&mut sc, t + 8, pup.prompt(false));
    }
    sc.horizon_ms = t + 500;
    sc.stop_when_quiet = false;
    C20Case { sc }
}

pub fn run(ctx: &mut Ctx) {
    ctx.rule = "proptest: the general acknowledged-mode scenario generator (segment sizes, contents, NAK procedures, CRC, limits, timeouts, id widths, link timing, up to 3 faults incl. duplicates) with files of \
>= 3 segments, plus 0..3 Prompt(keep-alive) requests when the link sees datagram k of either direction, optionally a suspend/resume pair at either entity (suspension 0..4 s), in 3 of 10 cases a user cancel at either entity in the middle of the first pass, and optionally a blackout of \
either/both directions from ordinal k (provoking limit faults and abandon); plus a puppet-sender family: 3..10 arbitrary segments (starting at earlier segment boundaries, anywhere, or 8-aligned; up to 2 segments long, \
overlapping, duplicated, out of order) each followed by a keep-alive prompt to a real receiver. Non-trivial = some figure was reported while 0 < progress < file size; distinct by scenario."
        .into();
    ctx.assumptions = vec![
        "window rule: a figure may correspond to any point between the last event surely processed (2 ms earlier) and what may already have been handed to the transport (2 tau + 2 ms later)".into(),
        "only the first receive transaction with the put's id is modelled".into(),
    ];
    let part = C20Part;
    ctx.run_known_replays(&part);
    let n = ctx.tier.pick(40_000u64, 2_000_000);
    ctx.section = "real-daemons".into();
    ctx.drive_proptest(&part, strategy(), n, 200);
    ctx.section = "puppet-overlapping-segments".into();
    let n = ctx.tier.pick(20_000u64, 1_000_000);
    let seed = ctx.seed;
    ctx.drive_indexed(&part, n, false, |i| puppet_overlaps(mix(seed, i)));
    ctx.section.clear();
}
