//! C14 — the file checksum is the CCSDS modular checksum, however the data is read.
//!
//! Engine E1. Oracle: (a) reference implementation (zero-pad to a multiple of 4, wrapping sum of
//! big-endian words; Null => 0); (b) the same data through three reader kinds agree; (c) metamorphic:
//! changing any single byte changes the modular checksum (delta * 256^k is never 0 mod 2^32);
//! (d) the result does not depend on where the reader's cursor was before the call.

use crate::common::*;
use cfdp_core::filestore::{ChecksumType, FileChecksum};
use proptest::prelude::*;
use serde::{Deserialize, Serialize};
use std::io::{Cursor, Read, Seek, SeekFrom, Write};

#[derive(Clone, Debug, Serialize, Deserialize)]
pub enum Content {
    Ramp,
    AllFF,
    Zero,
    /// a single non-zero byte `val` at `pos`, the rest zero
    Single { pos: usize, val: u8 },
    Random { seed: u64 },
}

#[derive(Clone, Debug, Serialize, Deserialize)]
pub enum ReaderKind {
    Cursor,
    File,
    /// short reads: the i-th read returns at most schedule[i % len] bytes
    Chunked { schedule: Vec<usize> },
}

#[derive(Clone, Debug, Serialize, Deserialize)]
pub struct CkCase {
    pub len: usize,
    pub content: Content,
    pub reader: ReaderKind,
    /// cursor position before the call, in 1/256 of the length
    pub start_frac: u8,
    /// single-byte change for the metamorphic check: (position fraction in 1/65536, xor value != 0)
    pub mutate: Option<(u16, u8)>,
}

pub fn make_content(c: &Content, len: usize) -> Vec<u8> {
    match c {
        Content::Ramp => (0..len).map(|i| (i * 7 + 1) as u8).collect(),
        Content::AllFF => vec![0xFF; len],
        Content::Zero => vec![0; len],
        Content::Single { pos, val } => {
            let mut v = vec![0; len];
            if len > 0 {
                v[*pos % len] = *val;
            }
            v
        }
        Content::Random { seed } => Prng::new(*seed).bytes(len),
    }
}

pub fn reference_checksum(data: &[u8]) -> u32 {
    let mut sum: u32 = 0;
    let mut i = 0;
    while i < data.len() {
        let mut w = [0u8; 4];
        let n = std::cmp::min(4, data.len() - i);
        w[..n].copy_from_slice(&data[i..i + n]);
        sum = sum.wrapping_add(u32::from_be_bytes(w));
        i += 4;
    }
    sum
}

/// A reader that returns short reads according to a schedule.
pub struct ChunkedReader {
    data: Vec<u8>,
    pos: u64,
    schedule: Vec<usize>,
    calls: usize,
}
impl ChunkedReader {
    pub fn new(data: Vec<u8>, schedule: Vec<usize>) -> Self {
        Self {
            data,
            pos: 0,
            schedule,
            calls: 0,
        }
    }
}
impl Read for ChunkedReader {
    fn read(&mut self, buf: &mut [u8]) -> std::io::Result<usize> {
        let remaining = self.data.len().saturating_sub(self.pos as usize);
        let limit = if self.schedule.is_empty() {
            usize::MAX
        } else {
            std::cmp::max(1, self.schedule[self.calls % self.schedule.len()])
        };
        self.calls += 1;
        let n = remaining.min(buf.len()).min(limit);
        buf[..n].copy_from_slice(&self.data[self.pos as usize..self.pos as usize + n]);
        self.pos += n as u64;
        Ok(n)
    }
}
impl Seek for ChunkedReader {
    fn seek(&mut self, pos: SeekFrom) -> std::io::Result<u64> {
        let new = match pos {
            SeekFrom::Start(p) => p as i128,
            SeekFrom::End(d) => self.data.len() as i128 + d as i128,
            SeekFrom::Current(d) => self.pos as i128 + d as i128,
        };
        if new < 0 {
            return Err(std::io::Error::new(std::io::ErrorKind::InvalidInput, "negative seek"));
        }
        self.pos = new as u64;
        Ok(self.pos)
    }
}

fn checksum_via(kind: &ReaderKind, data: &[u8], start: u64, ty: ChecksumType) -> Result<u32, String> {
    match kind {
        ReaderKind::Cursor => {
            let mut c = Cursor::new(data.to_vec());
            c.set_position(start);
            c.checksum(ty).map_err(|e| e.to_string())
        }
        ReaderKind::File => {
            let p = worker_dir().join("c14.bin");
            {
                let mut f = std::fs::File::create(&p).map_err(|e| e.to_string())?;
                f.write_all(data).map_err(|e| e.to_string())?;
            }
            let mut f = std::fs::File::open(&p).map_err(|e| e.to_string())?;
            f.seek(SeekFrom::Start(start)).map_err(|e| e.to_string())?;
            f.checksum(ty).map_err(|e| e.to_string())
        }
        ReaderKind::Chunked { schedule } => {
            let mut r = ChunkedReader::new(data.to_vec(), schedule.clone());
            r.pos = start;
            r.checksum(ty).map_err(|e| e.to_string())
        }
    }
}

pub struct CkPart;
impl Part for CkPart {
    type Case = CkCase;
    fn name(&self) -> &'static str {
        "checksum"
    }
    fn run(&self, case: &CkCase) -> CaseOut {
        let mut out = CaseOut::ok();
        let data = make_content(&case.content, case.len);
        let chunk_nontrivial = match &case.reader {
            ReaderKind::Chunked { schedule } => schedule.iter().any(|c| c % 4 != 0),
            _ => false,
        };
        if case.len % 4 != 0 || chunk_nontrivial {
            out = out.nt(hash_json(case));
        }
        out = out
            .class_if(case.len % 4 != 0, "len-not-multiple-of-4")
            .class_if(chunk_nontrivial, "short-chunks-not-multiple-of-4")
            .class_if(case.len > 8192, "longer-than-buffer")
            .class_if(matches!(case.reader, ReaderKind::File), "real-file");
        let start = (case.len as u64 * case.start_frac as u64) / 256;
        let want = reference_checksum(&data);
        let r = guarded(|| -> Result<(), (String, String)> {
            let got = checksum_via(&case.reader, &data, start, ChecksumType::Modular)
                .map_err(|e| ("checksum-error".to_string(), e))?;
            if got != want {
                let key = match &case.reader {
                    ReaderKind::Chunked { .. } => "modular-mismatch-chunked-reader",
                    _ => "modular-mismatch",
                };
                return Err((
                    key.into(),
                    format!("modular checksum {got:#010x}, CCSDS reference {want:#010x}"),
                ));
            }
            let null = checksum_via(&case.reader, &data, start, ChecksumType::Null)
                .map_err(|e| ("checksum-error".to_string(), e))?;
            if null != 0 {
                return Err(("null-not-zero".into(), format!("null checksum = {null}")));
            }
            // the cursor reader must agree (differential between readers)
            let via_cursor = checksum_via(&ReaderKind::Cursor, &data, 0, ChecksumType::Modular)
                .map_err(|e| ("checksum-error".to_string(), e))?;
            if via_cursor != got {
                return Err((
                    "readers-disagree".into(),
                    format!("cursor reader {via_cursor:#x} vs {got:#x}"),
                ));
            }
            if let (Some((pf, x)), true) = (case.mutate, !data.is_empty()) {
                let x = if x == 0 { 1 } else { x };
                let pos = (data.len() * pf as usize) >> 16;
                let mut d2 = data.clone();
                d2[pos] ^= x;
                let got2 = checksum_via(&case.reader, &d2, start, ChecksumType::Modular)
                    .map_err(|e| ("checksum-error".to_string(), e))?;
                if got2 == got {
                    return Err((
                        "single-byte-change-undetected".into(),
                        format!("changing byte {pos} by xor {x:#x} leaves the checksum at {got:#x}"),
                    ));
                }
                if got2 != reference_checksum(&d2) {
                    return Err((
                        "modular-mismatch".into(),
                        format!("after mutation: {got2:#x} vs reference {:#x}", reference_checksum(&d2)),
                    ));
                }
            }
            Ok(())
        });
        match r {
            Err(p) => out.failed(panic_site(&p), format!("{p}; case {case:?}")),
            Ok(Err((k, m))) => out.failed(k, format!("{m}; case {case:?}")),
            Ok(Ok(())) => out,
        }
    }
}

fn schedules() -> Vec<Vec<usize>> {
    let mut v: Vec<Vec<usize>> = (1..=9).map(|k| vec![k]).collect();
    v.push(vec![8191]);
    v.push(vec![8193]);
    v.push(vec![8192]);
    v.push(vec![4, 8, 3, 4]);
    v.push(vec![5, 3]);
    v.push(vec![8191, 1]);
    v.push(vec![4096, 2, 4094]);
    v
}

fn case_strategy() -> impl Strategy<Value = CkCase> {
    let len = prop_oneof![
        4 => 0usize..300,
        2 => 8180usize..8210,
        2 => 16370usize..16400,
        1 => 24570usize..24590,
        1 => Just(65535usize),
        1 => 60000usize..70000,
    ];
    let content = prop_oneof![
        Just(Content::Ramp),
        Just(Content::AllFF),
        (any::<usize>(), 1u8..=255).prop_map(|(pos, val)| Content::Single { pos, val }),
        any::<u64>().prop_map(|seed| Content::Random { seed }),
    ];
    let reader = prop_oneof![
        1 => Just(ReaderKind::Cursor),
        1 => Just(ReaderKind::File),
        6 => proptest::collection::vec(prop_oneof![1usize..10, 8185usize..8200, 1usize..20000], 1..6)
            .prop_map(|schedule| ReaderKind::Chunked { schedule }),
    ];
    (len, content, reader, any::<u8>(), proptest::option::of((any::<u16>(), 1u8..=255))).prop_map(
        |(len, content, reader, start_frac, mutate)| CkCase {
            len,
            content,
            reader,
            start_frac,
            mutate,
        },
    )
}

pub fn run(ctx: &mut Ctx) {
    ctx.rule = "structured sweep: every length 0..=130 (thorough 0..=260) x {ramp, 0xFF, single non-zero byte at every \
position, random} x {Cursor, File (subset), chunked readers with schedules 1..9, 8191, 8192, 8193, mixed}; lengths around \
8 KiB / 16 KiB / 64 KiB; plus proptest cases (random length, content, read schedule, start cursor, single-byte mutation). \
Non-trivial = length not a multiple of 4, or a read schedule containing a chunk whose length is not; distinct by the whole case."
        .into();
    ctx.assumptions = vec![
        "the reader implements Read+Seek correctly (short reads allowed, as std::io::Read permits)".into(),
    ];
    let part = CkPart;
    ctx.run_known_replays(&part);
    // structured sweep
    let max_len = ctx.tier.pick(130usize, 260);
    let mut cases = vec![];
    let scheds = schedules();
    for len in 0..=max_len {
        let mut contents = vec![Content::Ramp, Content::AllFF, Content::Random { seed: len as u64 }];
        for pos in 0..len {
            contents.push(Content::Single {
                pos,
                val: 1 + (pos % 255) as u8,
            });
        }
        for (ci, content) in contents.iter().enumerate() {
            // the single-byte family is combined with a rotating schedule, the others with all
            let readers: Vec<ReaderKind> = if ci < 3 {
                let mut r = vec![ReaderKind::Cursor];
                if len % 8 == 1 {
                    r.push(ReaderKind::File);
                }
                r.extend(scheds.iter().map(|s| ReaderKind::Chunked { schedule: s.clone() }));
                r
            } else {
                vec![
                    ReaderKind::Cursor,
                    ReaderKind::Chunked {
                        schedule: scheds[(len + ci) % scheds.len()].clone(),
                    },
                ]
            };
            for reader in readers {
                cases.push(CkCase {
                    len,
                    content: content.clone(),
                    reader,
                    start_frac: ((len * 37 + ci * 11) % 256) as u8,
                    mutate: Some((((len * 7919 + ci * 104729) % 65536) as u16, 0x5A)),
                });
            }
        }
    }
    for len in (8188..=8200).chain(16380..=16392).chain([24575, 24577, 65535, 65536, 65537]) {
        for content in [Content::Ramp, Content::AllFF, Content::Random { seed: len as u64 }] {
            let mut readers = vec![ReaderKind::Cursor, ReaderKind::File];
            readers.extend(scheds.iter().map(|s| ReaderKind::Chunked { schedule: s.clone() }));
            for reader in readers {
                cases.push(CkCase {
                    len,
                    content: content.clone(),
                    reader,
                    start_frac: (len % 256) as u8,
                    mutate: Some(((len % 65536) as u16, 0x80)),
                });
            }
        }
    }
    ctx.section = "structured".into();
    ctx.drive_list(&part, cases, false);
    ctx.section = "random".into();
    let n = ctx.tier.pick(100_000u64, 4_000_000);
    ctx.drive_proptest(&part, case_strategy(), n, 2000);
    ctx.section.clear();
}
