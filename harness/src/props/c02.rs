//! C02 — acknowledged mode recovers from any bounded loss, duplication and reordering.
//!
//! Engine E2 (two real daemons). For each configuration a fault-free baseline run gives the number
//! of datagrams per direction; then every placement of up to F faults (drop | duplicate | delay
//! past later datagrams) over ordinals 0..n+F of each direction is executed, F < limit.
//! Oracle: destination == source; the receiver's first Finished indication and the sender's
//! Finished indication are (NoError, Complete, Retained); both transactions are gone at the end.

use super::simutil::*;
use crate::common::*;
use crate::sim::*;
use proptest::prelude::*;
use serde::{Deserialize, Serialize};

#[derive(Clone, Debug, Serialize, Deserialize)]
pub struct C02Case {
    pub sc: Scenario,
}

pub fn fault_kinds() -> Vec<FaultKind> {
    vec![
        FaultKind::Drop,
        FaultKind::Dup { extra_ms: 1 },
        FaultKind::Dup { extra_ms: 40 },
        FaultKind::Delay { ms: 3 },
        FaultKind::Delay { ms: 9 },
    ]
}

/// the success oracle shared with C19 (after resume) and C13
pub fn check_transfer_success(sc: &Scenario, tr: &Trace, put: usize) -> Result<(), Fail> {
    let p = &sc.puts[put];
    let id = sc.put_id(put);
    let fail = |key: &str, msg: String| Fail {
        key: key.to_string(),
        msg: format!("{msg}\n{}", tr.render(160)),
    };
    if let Some(f) = &p.file {
        let src = f.bytes();
        match tr.file_at(p.to, &p.dst_name) {
            Some(d) if d == src => {}
            Some(d) => {
                return Err(fail(
                    "destination-differs",
                    format!("destination has {} bytes and differs from the {}-byte source", d.len(), src.len()),
                ))
            }
            None => return Err(fail("destination-missing", "the destination file does not exist at the end".into())),
        }
    }
    let rf = tr.finished_inds(p.to, id);
    match rf.first() {
        None => return Err(fail("receiver-no-finished", "the receiver never reported Finished".into())),
        Some((_, f)) => {
            let ok = if p.file.is_some() {
                is_success(f)
            } else {
                f.report.condition == cfdp_core::pdu::Condition::NoError
                    && f.delivery_code == cfdp_core::pdu::DeliveryCode::Complete
            };
            if !ok {
                return Err(fail(
                    "receiver-not-success",
                    format!(
                        "the receiver's first Finished indication is ({:?}, {:?}, {:?})",
                        f.report.condition, f.delivery_code, f.file_status
                    ),
                ));
            }
        }
    }
    let sf = tr.finished_inds(p.from, id);
    // an unacknowledged sender without closure has no feedback: it ends on EOF and cannot report the outcome
    let sender_knows = !p.unack || sc.entities[p.from].cfg.closure;
    match sf.first() {
        _ if !sender_knows => {}
        None => return Err(fail("sender-no-finished", "the sender never reported Finished".into())),
        Some((_, f)) => {
            let ok = if p.file.is_some() {
                is_success(f)
            } else {
                f.report.condition == cfdp_core::pdu::Condition::NoError
                    && f.delivery_code == cfdp_core::pdu::DeliveryCode::Complete
            };
            if !ok {
                return Err(fail(
                    "sender-not-success",
                    format!(
                        "the sender's Finished indication is ({:?}, {:?}, {:?})",
                        f.report.condition, f.delivery_code, f.file_status
                    ),
                ));
            }
        }
    }
    for e in [p.from, p.to] {
        if tr.alive_at_end(e, id) {
            return Err(fail(
                if e == p.from { "sender-never-ends" } else { "receiver-never-ends" },
                format!("the transaction at entity {e} still answers at the end of the run ({} ms)", tr.end_ms),
            ));
        }
    }
    Ok(())
}

pub struct C02Part;
impl Part for C02Part {
    type Case = C02Case;
    fn name(&self) -> &'static str {
        "recovery"
    }
    fn run(&self, case: &C02Case) -> CaseOut {
        let sc = &case.sc;
        let tr = run_scenario(sc);
        let mut out = CaseOut::ok();
        let eff = effective_faults(sc, &tr);
        if eff > 0 {
            out = out.nt(hash_json(sc));
        }
        out = out
            .class_if(eff == 0, "no-fault-hit")
            .class_if(eff == 1, "1-fault")
            .class_if(eff >= 2, ">=2-faults")
            .class_if(sc.puts[0].file.as_ref().map(|f| f.size == 0).unwrap_or(false), "empty-file")
            .class_if(sc.entities[1].cfg.nak.immediate, "immediate-nak")
            .class_if(sc.entities[1].cfg.nak.delay_ms > 0, "nak-delay")
            .class_if(sc.entities[0].cfg.crc, "crc");
        for f in &sc.faults {
            if let Some(d) = tr.dgrams.iter().find(|d| !d.injected && d.from == f.from && d.to == f.to && d.ord == f.ordinal) {
                out.classes.push(match (kind_of(&d.pdu), &f.kind) {
                    (Kind::Metadata, FaultKind::Drop) => "drop-metadata",
                    (Kind::FileData, FaultKind::Drop) => "drop-filedata",
                    (Kind::Eof, FaultKind::Drop) => "drop-eof",
                    (Kind::AckEof, FaultKind::Drop) => "drop-ack-eof",
                    (Kind::Nak, FaultKind::Drop) => "drop-nak",
                    (Kind::Finished, FaultKind::Drop) => "drop-finished",
                    (Kind::AckFin, FaultKind::Drop) => "drop-ack-finished",
                    (_, FaultKind::Dup { .. }) => "duplicate",
                    (_, FaultKind::Delay { .. }) => "delay",
                    _ => "other-fault",
                });
            }
        }
        if let Some(f) = common_failures(sc, &tr) {
            return out.failed(f.key, f.msg);
        }
        match check_transfer_success(sc, &tr, 0) {
            Ok(()) => out,
            Err(f) => out.failed(f.key, f.msg),
        }
    }
}

pub fn configs(tier: Tier) -> Vec<(CfgSpec, u32)> {
    // (config, file size)
    let mut v = vec![];
    let segs: Vec<u16> = tier.pick(vec![32], vec![16, 32, 64]);
    for seg in segs {
        for nak in nak_variants() {
            for crc in [false, true] {
                for closure in [false, true] {
                    // closure must be irrelevant in acknowledged mode: sample it on half of the grid
                    if closure && (crc != nak.immediate) {
                        continue;
                    }
                    let s = seg as u32;
                    for size in [0, 1, s - 1, s, s + 1, 3 * s] {
                        let cfg = CfgSpec {
                            seg,
                            max_count: 3,
                            ti: 9,
                            ta: 2,
                            tn: 3,
                            crc,
                            closure,
                            null_checksum: false,
                            nak: nak.clone(),
                            handlers: vec![],
                        };
                        v.push((cfg, size));
                    }
                }
            }
        }
    }
    v
}

fn scenario_for(cfg: &CfgSpec, size: u32, seed: u64) -> Scenario {
    let mut sc = Scenario::two_entities(cfg.clone(), cfg.clone());
    sc.seed = seed;
    sc.puts.push(simple_put(size, ContentClass::Random, seed ^ 0x55, false));
    sc.horizon_ms = generous_horizon(&[cfg]);
    sc
}

fn placements(n01: u32, n10: u32, f: u32) -> Vec<Fault> {
    let mut slots = vec![];
    for ord in 0..n01 + f {
        for k in fault_kinds() {
            slots.push(Fault { from: 0, to: 1, ordinal: ord, kind: k });
        }
    }
    for ord in 0..n10 + f {
        for k in fault_kinds() {
            slots.push(Fault { from: 1, to: 0, ordinal: ord, kind: k });
        }
    }
    slots
}

pub fn run(ctx: &mut Ctx) {
    ctx.rule = "acknowledged mode, sizes {0,1,seg-1,seg,seg+1,3seg}, 6 NAK procedures (deferred/immediate x delay 0/50 ms/1.5 s), CRC on/off, closure on/off, limit 3, \
Ta=2 Tn=3 Ti=9 s. A fault-free baseline gives n datagrams per direction; then every placement of F faults from {drop, duplicate(+1 ms, +40 ms), delay(3 ms, 9 ms)} over \
ordinals 0..n+F of each direction: F=1 exhaustive (also with the transaction tasks polled late, hook H5); F=2 exhaustive for pairs of drops (quick and thorough) and for pairs of any kinds (thorough), proptest-sampled mixed pairs in quick; \
both faults may hit a PDU and its retransmission (ordinals are per direction as emitted). Part multi-round-no-pdu-lost-thrice: per configuration with >= 2 segments, five losses of which none hits a PDU three times in a row (the first two data segments, the retransmission of the second, the next two NAKs; ordinals learned adaptively). Non-trivial = at least one fault hit a datagram; distinct by the whole scenario."
        .into();
    ctx.assumptions = vec![
        "F < limit (3) - in the multi-round part: fewer than 3 consecutive losses of any one PDU - and the inactivity timeout exceeds ack and NAK timeouts, as the statement requires".into(),
        "faults after the success reports (e.g. the receiver's ack limit when the one-shot ACK(Finished) was lost) are not judged here".into(),
    ];
    let part = C02Part;
    ctx.run_known_replays(&part);
    let cfgs = configs(ctx.tier);
    // baselines
    let seed = ctx.seed;
    let mut base: Vec<(Scenario, u32, u32)> = vec![];
    for (i, (cfg, size)) in cfgs.iter().enumerate() {
        let sc = scenario_for(cfg, *size, mix(seed, i as u64));
        let (a, b) = baseline_counts(&sc);
        base.push((sc, a, b));
    }
    // F = 0 and F = 1, exhaustive
    let mut cases = vec![];
    for (sc, a, b) in &base {
        cases.push(C02Case { sc: sc.clone() });
        for f in placements(*a, *b, 1) {
            let mut s = sc.clone();
            s.faults = vec![f];
            cases.push(C02Case { sc: s });
        }
    }
    ctx.section = "F<=1-exhaustive".into();
    ctx.drive_list(&part, cases, true);
    // the same placements with the transaction tasks polled late (hook H5): a retransmission timer and the PDU that answers it,
    // when they fall into one instant, are found ready together and either is taken first
    let mut cases = vec![];
    for (sc, a, b) in &base {
        for y in [3u8, 4] {
            for f in placements(*a, *b, 1) {
                let mut s = sc.clone();
                s.faults = vec![f];
                s.yields = y;
                cases.push(C02Case { sc: s });
            }
        }
    }
    ctx.section = "F=1-late-poll".into();
    ctx.drive_list(&part, cases, true);

    // F = 2: every pair of drops for every configuration (quick and thorough) ...
    let mut cases = vec![];
    for (sc, a, b) in &base {
        let slots: Vec<Fault> = placements(*a, *b, 2).into_iter().filter(|f| f.kind == FaultKind::Drop).collect();
        for i in 0..slots.len() {
            for j in i + 1..slots.len() {
                let mut s = sc.clone();
                s.faults = vec![slots[i].clone(), slots[j].clone()];
                cases.push(C02Case { sc: s });
            }
        }
    }
    ctx.section = "F=2-drops-exhaustive".into();
    ctx.drive_list(&part, cases, true);
    // ... and every pair of any kinds in thorough
    if ctx.tier == Tier::Thorough {
        let mut cases = vec![];
        for (sc, a, b) in base.iter() {
            let slots = placements(*a, *b, 2);
            for i in 0..slots.len() {
                for j in i + 1..slots.len() {
                    if slots[i].from == slots[j].from && slots[i].ordinal == slots[j].ordinal {
                        continue;
                    }
                    if slots[i].kind == FaultKind::Drop && slots[j].kind == FaultKind::Drop {
                        continue; // done above
                    }
                    let mut s = sc.clone();
                    s.faults = vec![slots[i].clone(), slots[j].clone()];
                    cases.push(C02Case { sc: s });
                }
            }
        }
        ctx.section = "F=2-all-kinds-exhaustive".into();
        ctx.drive_list(&part, cases, true);
    }
    // several NAK rounds, each PDU lost fewer than `limit` times in a row: the first two data segments are lost in the first pass,
    // the retransmission of the second is lost again, and so are the next two NAKs - five losses, none three times in a row
    // (limit 3). The ordinals are learned adaptively from runs with the faults chosen so far.
    let mut cases = vec![];
    for (sc, _, _) in &base {
        let seg = sc.entities[0].cfg.seg as u64;
        if sc.puts[0].file.as_ref().map(|f| f.size as u64 <= seg).unwrap_or(true) {
            continue;
        }
        let drop = |from: usize, to: usize, ordinal: u32| Fault { from, to, ordinal, kind: FaultKind::Drop };
        let mut s = sc.clone();
        s.health_check = false;
        s.faults = vec![drop(0, 1, 1), drop(0, 1, 2)];
        let tr = run_scenario(&s);
        let offset_of = |d: &Dgram| match d.pdu.as_ref().map(|p| &p.payload) {
            Some(cfdp_core::pdu::PDUPayload::FileData(cfdp_core::pdu::FileDataPDU::Unsegmented(fd))) => Some(fd.offset),
            _ => None,
        };
        let Some(b2) = tr.dgrams.iter().find(|d| d.from == 0 && d.to == 1 && !d.injected && d.ord > 2 && offset_of(d) == Some(seg)) else {
            continue;
        };
        s.faults.push(drop(0, 1, b2.ord));
        let t_b2 = b2.t;
        // the next NAK after that loss, and - once that one is lost too - the one after it
        for _ in 0..2 {
            let tr = run_scenario(&s);
            let lost: Vec<u32> = s.faults.iter().filter(|f| f.from == 1).map(|f| f.ordinal).collect();
            if let Some(d) = tr.dgrams.iter().find(|d| d.from == 1 && d.to == 0 && !d.injected && d.t > t_b2 && kind_of(&d.pdu) == Kind::Nak && !lost.contains(&d.ord)) {
                s.faults.push(drop(1, 0, d.ord));
            }
        }
        s.health_check = sc.health_check;
        cases.push(C02Case { sc: s });
    }
    ctx.section = "multi-round-no-pdu-lost-thrice".into();
    ctx.drive_list(&part, cases, true);
    let n = ctx.tier.pick(40_000u64, 1_000_000);
    let base2 = base.clone();
    let strat = (0..base2.len(), any::<u64>(), proptest::collection::vec((any::<bool>(), 0u32..40, 0usize..5), 2..=2)).prop_map(move |(bi, seed, fs)| {
        let (sc, a, b) = &base2[bi];
        let mut s = sc.clone();
        s.seed = seed;
        s.yields = [0u8, 0, 2, 3][(seed >> 40) as usize % 4];
        let kinds = fault_kinds();
        s.faults = fs
            .into_iter()
            .map(|(dir, ord, k)| {
                let (from, to, n) = if dir { (0, 1, *a + 2) } else { (1, 0, *b + 2) };
                Fault {
                    from,
                    to,
                    // monotone mapping of the raw ordinal into 0..n
                    ordinal: (ord * n) / 40,
                    kind: kinds[k].clone(),
                }
            })
            .collect();
        if s.faults[0].from == s.faults[1].from && s.faults[0].ordinal == s.faults[1].ordinal {
            s.faults.pop();
        }
        C02Case { sc: s }
    });
    ctx.section = "F=2-sampled".into();
    ctx.drive_proptest(&part, strat, n, 200);
    ctx.section.clear();
}
