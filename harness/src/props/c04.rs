//! C04 — a completed delivery is final: late or duplicate PDUs cannot undo or redo it.
//!
//! Engine E3: a puppet sender drives a real receiver to its first successful Finished, then
//! re-delivers one or two of any previously sent PDU (Metadata, each FileData, EOF, Prompt NAK /
//! keep-alive) while the transaction still waits for the ACK of Finished, then acknowledges (or
//! never does). File transfers and filestore-request-only transactions with non-idempotent
//! requests (append, create, rename), Modular and Null checksum.
//! Engine E2: two real daemons with ACK(EOF), Finished and ACK(Finished) each lost 0, 1 or 2 times,
//! so that the real sender retransmits its EOF into a receiver that has already completed.
//! Oracle (invariant after the first success): the destination equals the source at the end; the
//! receiver's filestore equals the model with the requests applied exactly once; no Fault /
//! Finished indication and no Finished PDU with FileChecksumFailure or FilesizeError; the
//! filestore responses of every later Finished PDU equal the first; a sender reports success
//! only if its receiver reported success.

use super::c13::{initial_states, ModelFs, Node};
use super::simutil::*;
use crate::common::*;
use crate::puppet::{modular, Pup};
use crate::sim::*;
use cfdp_core::daemon::Indication;
use cfdp_core::pdu::*;
use serde::{Deserialize, Serialize};

#[derive(Clone, Debug, Serialize, Deserialize)]
pub struct C04Case {
    pub sc: Scenario,
    pub initial: usize,
}

fn fail(tr: &Trace, key: &str, msg: String) -> Fail {
    Fail {
        key: key.to_string(),
        msg: format!("{msg}\n{}", tr.render(240)),
    }
}

pub fn check_final(case: &C04Case, tr: &Trace) -> Result<Vec<&'static str>, Fail> {
    let sc = &case.sc;
    let p = &sc.puts[0];
    let id = sc.put_id(0);
    let mut labels = vec![];
    let r_fin = tr.finished_inds(p.to, id);
    let success = |f: &cfdp_core::daemon::FinishedIndication| {
        f.report.condition == Condition::NoError && f.delivery_code == DeliveryCode::Complete && (p.file.is_none() || f.file_status == FileStatusCode::Retained)
    };
    let first_success = r_fin.iter().find(|(_, f)| success(f)).map(|x| x.0);
    // a sending entity reports success only for a transaction its receiver reported as successfully delivered
    // (for this clause "success" is what the sender's user sees of it: condition NoError and delivery code Complete - the file
    // status is relayed as it came and is compared elsewhere)
    let loose = |f: &cfdp_core::daemon::FinishedIndication| f.report.condition == Condition::NoError && f.delivery_code == DeliveryCode::Complete;
    let first_loose = r_fin.iter().find(|(_, f)| loose(f)).map(|x| x.0);
    if sc.entities[p.from].present {
        for (t, f) in tr.finished_inds(p.from, id) {
            if loose(f) && first_loose.map(|fs| fs > t).unwrap_or(true) {
                return Err(fail(tr, "sender-success-without-receiver-success", format!("the sender reported success at {t} ms; receiver's first success: {first_success:?}")));
            }
        }
    }
    let Some(t0) = first_success else {
        return Ok(vec!["no-success"]);
    };
    let t_end = tr
        .inds_of(p.to, id)
        .iter()
        .filter_map(|r| match &r.ind {
            Indication::Report(rep) if rep.state == cfdp_core::transaction::TransactionState::Terminated && r.t >= t0 => Some(r.t),
            _ => None,
        })
        .min()
        .unwrap_or(tr.end_ms);
    // late PDUs: delivered to the still-open transaction after its first success
    let late: Vec<&Dgram> = tr
        .deliveries
        .iter()
        .filter(|(t, to, _)| *to == p.to && *t > t0 && *t <= t_end)
        .map(|(_, _, di)| &tr.dgrams[*di])
        .filter(|d| !d.corrupted && !matches!(kind_of(&d.pdu), Kind::AckFin | Kind::Undecodable))
        .collect();
    if !late.is_empty() {
        labels.push("late-pdu-after-success");
        for d in &late {
            labels.push(match kind_of(&d.pdu) {
                Kind::Metadata => "late-metadata",
                Kind::FileData => "late-filedata",
                Kind::Eof => "late-eof",
                Kind::Prompt => "late-prompt",
                _ => "late-other",
            });
        }
    }
    // ---- no integrity fault reported by anybody, nor carried by a Finished PDU
    for e in [p.from, p.to] {
        if !sc.entities[e].present {
            continue;
        }
        for r in tr.inds_of(e, id) {
            let c = match &r.ind {
                Indication::Fault(f) | Indication::Abandon(f) => f.condition,
                Indication::Finished(f) => f.report.condition,
                _ => continue,
            };
            // (at the receiver: while the transaction that delivered the file is still open; a straggler arriving after its
            // end starts a new transaction, which is C11's subject)
            if r.t >= t0 && (e != p.to || r.t < t_end || r.t == t0) && matches!(c, Condition::FileChecksumFailure | Condition::FilesizeError) {
                return Err(fail(
                    tr,
                    &format!("integrity-fault-after-success:{c:?}:{}", if e == p.to { "receiver" } else { "sender" }),
                    format!("the receiver reported a successful delivery at {t0} ms, yet entity {e} reported {c:?} at {} ms", r.t),
                ));
            }
        }
    }
    let mut first_resp: Option<Vec<FileStoreResponse>> = None;
    for d in tr.emitted(p.to, p.from) {
        if let Some(PDUPayload::Directive(Operations::Finished(f))) = d.pdu.as_ref().map(|x| &x.payload) {
            // (strictly before the end: in the millisecond in which the transaction ends a straggler may already have started the next one)
            if d.t < t0 || d.t >= t_end {
                continue;
            }
            if matches!(f.condition, Condition::FileChecksumFailure | Condition::FilesizeError) {
                return Err(fail(tr, &format!("finished-pdu-integrity-fault:{:?}", f.condition), format!("Finished PDU at {} ms carries {:?} after the success at {t0} ms", d.t, f.condition)));
            }
            if f.condition == Condition::NoError {
                match &first_resp {
                    None => first_resp = Some(f.filestore_response.clone()),
                    Some(fr) if *fr != f.filestore_response => {
                        return Err(fail(tr, "finished-pdu-responses-changed", format!("Finished PDU at {} ms carries {:?}, the first one {fr:?}", d.t, f.filestore_response)));
                    }
                    _ => {}
                }
            }
        }
    }
    // success indications after the first must not differ either (a second finalisation shows up here)
    let succ: Vec<_> = r_fin.iter().filter(|(t, f)| success(f) && (*t < t_end || *t == t0)).collect();
    if succ.len() > 1 {
        return Err(fail(tr, "delivery-finalized-twice", format!("the receiver reported a successful delivery {} times: at {:?}", succ.len(), succ.iter().map(|x| x.0).collect::<Vec<_>>())));
    }
    // ---- the delivered file and the side effects, at the end of the run (only while the id was used by one receive transaction)
    let instances = tr
        .inds_of(p.to, id)
        .iter()
        .filter(|r| matches!(&r.ind, Indication::Report(rep) if rep.state == cfdp_core::transaction::TransactionState::Active))
        .count();
    if instances <= 1 {
        if let Some(f) = &p.file {
            let src = f.bytes();
            match tr.file_at(p.to, &p.dst_name) {
                Some(c) if c == src => {}
                other => {
                    return Err(fail(
                        tr,
                        "delivered-file-changed",
                        format!("after the successful delivery at {t0} ms the destination {}", match other {
                            None => "no longer exists".to_string(),
                            Some(c) => format!("has {} bytes and differs from the source ({} bytes)", c.len(), src.len()),
                        }),
                    ))
                }
            }
        }
        let mut model = initial_states()[case.initial % initial_states().len()].clone();
        let mut failed = false;
        for r in &p.requests {
            if !failed {
                failed = model.apply(&action_from(r.action), &r.first, &r.second).is_fail();
            }
        }
        let real = ModelFs::read_back(&tr.roots[p.to], &[p.dst_name.as_str()]);
        if real != model {
            return Err(fail(
                tr,
                "filestore-requests-not-exactly-once",
                format!("requests {:?}: the receiver's filestore is {:?}, the model with the requests applied once is {:?}", p.requests, real.0, model.0),
            ));
        }
    }
    Ok(labels)
}

pub struct C04Part;
impl Part for C04Part {
    type Case = C04Case;
    fn name(&self) -> &'static str {
        "final"
    }
    fn run(&self, case: &C04Case) -> CaseOut {
        let sc = &case.sc;
        let tr = run_scenario(sc);
        let mut out = CaseOut::ok();
        out = out
            .class_if(sc.entities[0].present, "real-sender")
            .class_if(!sc.entities[0].present, "puppet-sender")
            .class_if(sc.puts[0].file.is_none(), "requests-only")
            .class_if(!sc.puts[0].requests.is_empty(), "with-requests")
            .class_if(sc.entities[1].cfg.null_checksum || sc.entities[0].cfg.null_checksum, "null-checksum");
        if let Some(f) = common_failures(sc, &tr) {
            return out.failed(f.key, f.msg);
        }
        match check_final(case, &tr) {
            Ok(labels) => {
                if labels.contains(&"late-pdu-after-success") {
                    out = out.nt(hash_json(sc));
                }
                for l in labels {
                    if !out.classes.contains(&l) {
                        out.classes.push(l);
                    }
                }
                out
            }
            Err(f) => out.failed(f.key, f.msg),
        }
    }
}

fn request_sets() -> Vec<Vec<ReqSpec>> {
    let r = |action: u8, a: &str, b: &str| ReqSpec { action, first: a.into(), second: b.into() };
    vec![
        vec![],
        vec![r(3, "f1", "f2")],                                   // append f2 onto f1: not idempotent
        vec![r(0, "created", ""), r(3, "f1", "f2")],              // create + append
        vec![r(2, "f1", "renamed"), r(0, "f1", "")],              // rename away, create anew
        vec![r(3, "f1", "f2"), r(1, "nx", ""), r(0, "never", "")], // append, failing delete, not performed
        vec![r(5, "newdir", ""), r(0, "newdir/x", ""), r(3, "f2", "f1")],
    ]
}

fn preload(sc: &mut Scenario, initial: usize) {
    for (k, n) in &initial_states()[initial].0 {
        match n {
            Node::Dir => sc.preload.push((1, format!("{k}/"), vec![])),
            Node::File(c) => sc.preload.push((1, k.clone(), c.clone())),
        }
    }
}

/// late: list of item codes: 0 metadata, 1 eof, 2 prompt-nak, 3 prompt-keepalive, 10+i data segment i
pub fn build_puppet(with_file: bool, null_checksum: bool, reqs: &[ReqSpec], late: &[u32], ack_fin: bool, nak: NakSpec, seed: u64) -> C04Case {
    build_puppet_timed(with_file, null_checksum, reqs, late, None, ack_fin, None, nak, seed, false)
}

/// as `build_puppet`, with an explicit delivery time for every late PDU and for the ACK(Finished)
#[allow(clippy::too_many_arguments)]
pub fn build_puppet_timed(
    with_file: bool,
    null_checksum: bool,
    reqs: &[ReqSpec],
    late: &[u32],
    times: Option<&[u64]>,
    ack_fin: bool,
    ack_at: Option<u64>,
    nak: NakSpec,
    seed: u64,
    unack_closure: bool,
) -> C04Case {
    let cfg = CfgSpec { seg: 32, max_count: 3, ti: 30, ta: 2, tn: 2, crc: seed % 3 == 0, closure: unack_closure, null_checksum, nak, handlers: vec![] };
    let mut sc = Scenario::two_entities(cfg.clone(), cfg);
    sc.entities[0].present = false;
    sc.seed = seed;
    let size = 80u32;
    // unacknowledged mode with closure requested: the receiver finalises on the EOF, sends Finished and waits for its ACK
    let mut put = simple_put(size, ContentClass::Random, seed ^ 0xC04, unack_closure);
    put.dst_name = "delivered.bin".into();
    put.requests = reqs.to_vec();
    if !with_file {
        put.file = None;
    }
    sc.puts.push(put);
    preload(&mut sc, 0);
    let content = if with_file { sc.puts[0].file.as_ref().unwrap().bytes() } else { vec![] };
    let pup = Pup::for_put(&sc, 0);
    let options: Vec<MetadataTLV> = reqs.iter().map(|r| MetadataTLV::FileStoreRequest(r.to_request())).collect();
    let meta = if with_file {
        pup.metadata(size as u64, "src.bin", "delivered.bin", unack_closure, null_checksum, options)
    } else {
        pup.metadata(0, "", "", unack_closure, null_checksum, options)
    };
    let nseg = content.len().div_ceil(32);
    let data = |i: usize| pup.data((i * 32) as u64, &content[i * 32..std::cmp::min(content.len(), (i + 1) * 32)]);
    let eof = pup.eof(Condition::NoError, if null_checksum { 0 } else { modular(&content) }, content.len() as u64);
    let inject = |sc: &mut Scenario, t: u64, bytes: Vec<u8>| {
        sc.actions.push(Action { trigger: Trigger::AtMs(t), entity: 0, kind: ActionKind::Inject { to: 1, as_from: 0, bytes } });
    };
    inject(&mut sc, 10, meta.clone());
    for i in 0..nseg {
        inject(&mut sc, 20 + 10 * i as u64, data(i));
    }
    inject(&mut sc, 100, eof.clone());
    let mut t = 300;
    for (li, code) in late.iter().enumerate() {
        if let Some(ts) = times {
            t = ts[li];
        }
        let bytes = match code {
            0 => meta.clone(),
            1 => eof.clone(),
            2 => pup.prompt(true),
            3 => pup.prompt(false),
            c => {
                let i = (*c as usize - 10) % nseg.max(1);
                if nseg == 0 {
                    eof.clone()
                } else {
                    data(i)
                }
            }
        };
        inject(&mut sc, t, bytes);
        t += 20;
    }
    if ack_fin {
        inject(&mut sc, ack_at.unwrap_or(700), pup.ack_finished(Condition::NoError));
    }
    sc.horizon_ms = 30_000;
    C04Case { sc, initial: 0 }
}

pub fn build_real(size: u32, null_checksum: bool, reqs: &[ReqSpec], lost: (u32, u32, u32), nak: NakSpec, seed: u64) -> C04Case {
    let cfg = CfgSpec { seg: 32, max_count: 3, ti: 9, ta: 2, tn: 3, crc: seed % 3 == 0, closure: false, null_checksum, nak, handlers: vec![] };
    let mut sc = Scenario::two_entities(cfg.clone(), cfg.clone());
    sc.seed = seed;
    let mut put = simple_put(size, ContentClass::Random, seed ^ 0x4C04, false);
    put.dst_name = "delivered.bin".into();
    put.requests = reqs.to_vec();
    sc.puts.push(put);
    preload(&mut sc, 0);
    if lost.0 > 0 {
        sc.blackouts.push(Blackout::first_of_kind(1, 0, Kind::AckEof, lost.0));
    }
    if lost.1 > 0 {
        sc.blackouts.push(Blackout::first_of_kind(1, 0, Kind::Finished, lost.1));
    }
    if lost.2 > 0 {
        sc.blackouts.push(Blackout::first_of_kind(0, 1, Kind::AckFin, lost.2));
    }
    sc.horizon_ms = generous_horizon(&[&cfg]);
    C04Case { sc, initial: 0 }
}

pub fn run(ctx: &mut Ctx) {
    ctx.rule = "puppet sender vs real receiver: {file transfer, requests-only} x {Modular, Null} x 6 request lists (none, append, create+append, rename+create, append+failing delete+not performed, mkdir+create+append) x \
every single late PDU and every ordered pair out of {Metadata, EOF, Prompt(NAK), Prompt(keep-alive), each data segment} delivered 200 ms after completion x ACK(Finished) sent or never x deferred/immediate NAK (exhaustive); \
the same with 1..5 stragglers at sampled moments of the whole Finished/ACK wait (incl. the millisecond of completion, of each Finished retransmission and of the ACK; in one of four the receiver ignores the ACK-limit fault and no ACK ever comes); real sender vs real receiver: sizes {0, 40, 100} x checksum x request lists x ACK(EOF), Finished, ACK(Finished) each lost 0/1/2 times (27 combinations, exhaustive) x 2 NAK procedures. \
plus the same handshake losses with one bit of the file data flipped on a link without CRC (the receiver fails at finalisation with delivery code Complete; the sender must not report success). Non-trivial = at least one PDU other than ACK(Finished) reached the receive transaction between its first success and its end; distinct by scenario."
        .into();
    ctx.assumptions = vec![
        "side effects are judged at the end of the run against the model with the requests applied once (C13 validates the model itself)".into(),
        "the final-state clauses apply while only one receive transaction ever used the id (replays after its end are C11's subject)".into(),
    ];
    let part = C04Part;
    ctx.run_known_replays(&part);
    let mut cases = vec![];
    let mut k = 0u64;
    let reqsets = request_sets();
    for with_file in [true, false] {
        for null in [false, true] {
            for reqs in &reqsets {
                if !with_file && reqs.is_empty() {
                    continue;
                }
                let mut items: Vec<u32> = vec![0, 1, 2, 3];
                if with_file {
                    items.extend([10, 11, 12]);
                }
                let mut lates: Vec<Vec<u32>> = vec![vec![]];
                for a in &items {
                    lates.push(vec![*a]);
                    for b in &items {
                        lates.push(vec![*a, *b]);
                    }
                }
                for late in &lates {
                    for ack in [true, false] {
                        for nak in [NakSpec { immediate: false, delay_ms: 0 }, NakSpec { immediate: true, delay_ms: 50 }] {
                            if ctx.tier == Tier::Quick && late.len() == 2 && !ack && nak.immediate {
                                continue;
                            }
                            k += 1;
                            cases.push(build_puppet(with_file, null, reqs, late, ack, nak, mix(ctx.seed, k)));
                        }
                    }
                }
            }
        }
    }
    ctx.section = "puppet-late-pdus".into();
    ctx.drive_list(&part, cases, ctx.tier == Tier::Thorough);
    // the same stragglers against a receiver in unacknowledged mode with closure requested: it finalises on the EOF, sends
    // Finished and waits for the ACK (retransmitting Finished) - a window in which duplicates of every earlier PDU can arrive
    let mut cases = vec![];
    for with_file in [true, false] {
        for null in [false, true] {
            for reqs in &reqsets {
                if !with_file && reqs.is_empty() {
                    continue;
                }
                let mut items: Vec<u32> = vec![0, 1, 2, 3];
                if with_file {
                    items.extend([10, 11, 12]);
                }
                let mut lates: Vec<Vec<u32>> = vec![vec![]];
                for a in &items {
                    lates.push(vec![*a]);
                    for b in &items {
                        lates.push(vec![*a, *b]);
                    }
                }
                for late in &lates {
                    for ack in [true, false] {
                        k += 1;
                        cases.push(build_puppet_timed(with_file, null, reqs, late, None, ack, None, NakSpec { immediate: false, delay_ms: 0 }, mix(ctx.seed, k), true));
                    }
                }
            }
        }
    }
    ctx.section = "puppet-late-pdus-unack-closure".into();
    ctx.drive_list(&part, cases, true);
    let mut cases = vec![];
    for size in [0u32, 40, 100] {
        for null in [false, true] {
            for reqs in &reqsets {
                for a in 0..3u32 {
                    for b in 0..3u32 {
                        for c in 0..3u32 {
                            for nak in [NakSpec { immediate: false, delay_ms: 0 }, NakSpec { immediate: true, delay_ms: 0 }] {
                                k += 1;
                                cases.push(build_real(size, null, reqs, (a, b, c), nak, mix(ctx.seed, k)));
                            }
                        }
                    }
                }
            }
        }
    }
    // sampled: 1..5 stragglers at arbitrary moments of the receiver's Finished/ACK wait (completion at 100 ms, ACK timer 2 s x 3),
    // also in the very millisecond of completion, of a Finished retransmission or of the ACK(Finished)
    let seed = ctx.seed;
    let reqsets2 = reqsets.clone();
    let n = ctx.tier.pick(6_000u64, 1_000_000);
    ctx.section = "puppet-late-pdus-timed".into();
    ctx.drive_indexed(&part, n, false, move |i| {
        let mut rng = Prng::new(mix(seed ^ 0xC04_71, i));
        let with_file = rng.chance(3, 4);
        let null = rng.chance(1, 3);
        let mut reqs = rng.pick(&reqsets2).clone();
        if !with_file && reqs.is_empty() {
            reqs = reqsets2[1].clone();
        }
        let n_late = 1 + rng.below(5) as usize;
        let mut late = vec![];
        let mut times = vec![];
        for _ in 0..n_late {
            late.push(*rng.pick(if with_file { &[0u32, 1, 2, 3, 10, 11, 12][..] } else { &[0u32, 1, 2, 3][..] }));
            times.push(match rng.below(6) {
                0 => 100 + rng.below(4),
                1 => 2098 + rng.below(6),
                2 => 4098 + rng.below(6),
                3 => 6095 + rng.below(10),
                _ => 100 + rng.below(7000),
            });
        }
        times.sort();
        let ack_fin = rng.chance(2, 3);
        let ack_at = match rng.below(4) {
            0 => 100 + rng.below(5),
            1 => 2100 + rng.below(3),
            _ => 100 + rng.below(6500),
        };
        let nak = if rng.chance(1, 2) { NakSpec { immediate: false, delay_ms: 0 } } else { NakSpec { immediate: true, delay_ms: *rng.pick(&[0u64, 50]) } };
        let seed_c = rng.next();
        let unack_closure = rng.chance(1, 4);
        let mut c = build_puppet_timed(with_file, null, &reqs, &late, Some(&times), ack_fin, Some(ack_at), nak, seed_c, unack_closure);
        // one in four: the receiver is configured to ignore the positive-ACK limit fault (and possibly the inactivity fault) and
        // the ACK(Finished) never comes: the limit is reached, the fault ignored, the wait goes on - the delivery stays what it was
        if rng.chance(1, 4) {
            c.sc.entities[1].cfg.handlers = if rng.chance(1, 2) { vec![(1, 2)] } else { vec![(1, 2), (8, 2)] };
            c.sc.actions.retain(|a| !matches!(&a.kind, ActionKind::Inject { bytes, .. } if kind_of(&PDU::decode(&mut bytes.as_slice()).ok()) == Kind::AckFin));
        }
        c
    });
    // the receiver holds every byte but the delivery fails at finalisation (no CRC on the link, one bit of the file data flipped,
    // modular checksum): its Finished PDU carries the fault with delivery code Complete - the sender must not turn that into a success
    for size in [40u32, 100] {
        for reqs in &reqsets {
            for nak in [NakSpec { immediate: false, delay_ms: 0 }, NakSpec { immediate: true, delay_ms: 0 }] {
                for lost in [(0u32, 0u32, 0u32), (0, 1, 0), (1, 0, 1)] {
                    for hit in [1u32, 2] {
                        k += 1;
                        let mut c = build_real(size, false, reqs, lost, nak.clone(), mix(ctx.seed, k));
                        for e in c.sc.entities.iter_mut() {
                            e.cfg.crc = false;
                        }
                        c.sc.faults.push(Fault { from: 0, to: 1, ordinal: hit, kind: FaultKind::CorruptData { frac: (k * 7919 % 65536) as u16 } });
                        cases.push(c);
                    }
                }
            }
        }
    }
    ctx.section = "real-sender-handshake-losses".into();
    ctx.drive_list(&part, cases, true);
    ctx.section.clear();
}
