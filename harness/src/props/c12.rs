//! C12 — filestore operations cannot reach outside the filestore root.
//!
//! Engine E1. The store is rooted at S/root inside a sandbox S that also holds sentinel files and
//! directories (a sibling whose name extends the root's, a plain sibling, files next to the root).
//! Oracle: (a) lexical — `get_native_path(name)`, with `.`/`..` resolved by the harness WITHOUT
//! clamping, is the root or below it; (b) dynamic — a recursive snapshot (names, kinds, sizes,
//! content hashes) of S minus S/root is identical before and after every operation, and no read
//! operation returns sentinel data (size, content, listing).

use crate::common::*;
use camino::{Utf8Path, Utf8PathBuf};
use cfdp_core::filestore::{FileStore, NativeFileStore};
use cfdp_core::pdu::{FileStoreAction, FileStoreRequest};
use proptest::prelude::*;
use serde::{Deserialize, Serialize};
use std::fs::OpenOptions;
use std::io::{Read, Write};

#[derive(Clone, Debug, Serialize, Deserialize, PartialEq)]
pub enum Prefix {
    None,
    Slash,
    DoubleSlash,
    /// the absolute root path itself
    Root,
    RootSlash,
    /// the sibling whose name extends the root's: <S>/rootX
    SiblingExt,
    /// the sandbox directory that contains the root
    Parent,
    /// "./"
    Dot,
}

#[derive(Clone, Debug, Serialize, Deserialize)]
pub struct Name {
    pub prefix: Prefix,
    /// components out of {"a", "b", ".", "..", "", "inner", "x", "rootX", "root"}
    pub comps: Vec<String>,
}

#[derive(Clone, Debug, Serialize, Deserialize)]
pub enum Op {
    CreateFile,
    DeleteFile,
    RenameFrom,
    RenameTo,
    AppendTarget,
    AppendSource,
    ReplaceTarget,
    ReplaceSource,
    CreateDirectory,
    RemoveDirectory,
    OpenWrite,
    OpenRead,
    GetSize,
    ListDirectory,
    /// process_request with this action code (0..=8), name as first filename
    Request1(u8),
    /// process_request with this action code, name as second filename
    Request2(u8),
}

#[derive(Clone, Debug, Serialize, Deserialize)]
pub struct FsCase {
    pub name: Name,
    pub op: Op,
}

const SENTINEL: &[u8] = b"SENTINEL-DO-NOT-TOUCH-0123456789";

struct Sandbox {
    top: Utf8PathBuf,
    s: Utf8PathBuf,
    root: Utf8PathBuf,
}

fn sandbox() -> Sandbox {
    let top = Utf8PathBuf::from_path_buf(worker_dir().join("c12")).expect("utf8 path");
    // nest deeply so that a handful of ".." never leaves `top`
    let s = top.join("l1/l2/l3/l4/l5/l6/l7/l8");
    let root = s.join("root");
    Sandbox { top, s, root }
}

fn reset(sb: &Sandbox) {
    let _ = std::fs::remove_dir_all(&sb.top);
    std::fs::create_dir_all(&sb.root).unwrap();
    // inside the root
    std::fs::write(sb.root.join("a"), b"file a").unwrap();
    std::fs::create_dir_all(sb.root.join("b")).unwrap();
    std::fs::write(sb.root.join("b/a"), b"file b/a").unwrap();
    std::fs::write(sb.root.join("inner"), b"inner file").unwrap();
    // sentinels outside the root
    std::fs::write(sb.s.join("x"), SENTINEL).unwrap();
    std::fs::write(sb.s.join("a"), SENTINEL).unwrap();
    std::fs::write(sb.s.join("inner"), SENTINEL).unwrap();
    std::fs::create_dir_all(sb.s.join("rootX/b")).unwrap();
    std::fs::write(sb.s.join("rootX/a"), SENTINEL).unwrap();
    std::fs::write(sb.s.join("rootX/x"), SENTINEL).unwrap();
    std::fs::create_dir_all(sb.s.join("b")).unwrap();
    std::fs::write(sb.s.join("b/a"), SENTINEL).unwrap();
    std::fs::write(sb.top.join("l1/a"), SENTINEL).unwrap();
    std::fs::write(sb.top.join("l1/l2/l3/l4/l5/l6/l7/a"), SENTINEL).unwrap();
    std::fs::create_dir_all(sb.top.join("l1/l2/l3/l4/l5/l6/l7/b")).unwrap();
}

/// recursive snapshot of `dir`, skipping `skip`
fn snapshot(dir: &Utf8Path, skip: &Utf8Path, out: &mut Vec<(String, u64, u64)>) {
    let mut entries: Vec<_> = match std::fs::read_dir(dir) {
        Ok(rd) => rd.filter_map(|e| e.ok()).collect(),
        Err(_) => {
            out.push((format!("{dir} <unreadable>"), 0, 0));
            return;
        }
    };
    entries.sort_by_key(|e| e.file_name());
    for e in entries {
        let p = Utf8PathBuf::from_path_buf(e.path()).unwrap();
        if p == skip {
            // what happens to the root itself and below it is not this property's business
            continue;
        }
        let md = match std::fs::symlink_metadata(&p) {
            Ok(m) => m,
            Err(_) => continue,
        };
        if md.is_dir() {
            out.push((format!("{p}/"), 0, 0));
            snapshot(&p, skip, out);
        } else {
            let content = std::fs::read(&p).unwrap_or_default();
            out.push((p.to_string(), md.len(), hash_of(&content)));
        }
    }
}

fn render(sb: &Sandbox, n: &Name) -> String {
    let mut s = match n.prefix {
        Prefix::None => String::new(),
        Prefix::Slash => "/".into(),
        Prefix::DoubleSlash => "//".into(),
        Prefix::Root => sb.root.to_string(),
        Prefix::RootSlash => format!("{}/", sb.root),
        Prefix::SiblingExt => format!("{}X", sb.root),
        Prefix::Parent => sb.s.to_string(),
        Prefix::Dot => "./".into(),
    };
    for (i, c) in n.comps.iter().enumerate() {
        let need_sep = match (i, &n.prefix) {
            (0, Prefix::None) | (0, Prefix::Slash) | (0, Prefix::DoubleSlash) | (0, Prefix::RootSlash) | (0, Prefix::Dot) => false,
            _ => true,
        };
        if need_sep {
            s.push('/');
        }
        s.push_str(c);
    }
    s
}

/// resolve `.` and `..` lexically, without clamping; None if it climbs above "/"
fn lexical(p: &Utf8Path) -> Option<Vec<String>> {
    let mut out: Vec<String> = vec![];
    for c in p.as_str().split('/') {
        match c {
            "" | "." => {}
            ".." => {
                out.pop()?;
            }
            other => out.push(other.to_string()),
        }
    }
    Some(out)
}

fn inside(resolved: &[String], root: &[String]) -> bool {
    resolved.len() >= root.len() && resolved[..root.len()] == *root
}

pub struct FsPart;
impl Part for FsPart {
    type Case = FsCase;
    fn name(&self) -> &'static str {
        "confinement"
    }
    fn run(&self, case: &FsCase) -> CaseOut {
        let sb = sandbox();
        let name = render(&sb, &case.name);
        let mut out = CaseOut::ok();
        let has_dotdot = case.name.comps.iter().any(|c| c == "..");
        let has_root_prefix = !matches!(
            case.name.prefix,
            Prefix::None | Prefix::Slash | Prefix::DoubleSlash | Prefix::Dot
        );
        if has_dotdot || has_root_prefix {
            out = out.nt(hash_json(case));
        }
        out = out
            .class_if(has_dotdot, "has-dotdot")
            .class_if(has_root_prefix, "root-or-sibling-prefix")
            .class_if(case.name.comps.iter().any(|c| c.is_empty()), "empty-component");
        let store = NativeFileStore::new(&sb.root);
        // (a) lexical containment
        let native = match guarded(|| store.get_native_path(&name)) {
            Ok(p) => p,
            Err(p) => return out.failed(panic_site(&p), format!("get_native_path({name:?}) panicked: {p}")),
        };
        let root_l = lexical(&sb.root).unwrap();
        let top_l = lexical(&sb.top).unwrap();
        let resolved = lexical(&native);
        let lexical_ok = resolved.as_ref().map(|r| inside(r, &root_l)).unwrap_or(false);
        if !lexical_ok {
            let key = if case.name.prefix == Prefix::Root || case.name.prefix == Prefix::RootSlash {
                "escape-lexical-root-prefixed-name"
            } else {
                "escape-lexical"
            };
            // still run the operation if it cannot leave the sandbox, to report what it did
            let safe = resolved.as_ref().map(|r| inside(r, &top_l)).unwrap_or(false);
            let mut effect = String::new();
            if safe {
                if let Some(e) = dynamic(&sb, &store, &name, &case.op) {
                    effect = format!("; observed effect: {}", e.1);
                }
            }
            return out.failed(
                key,
                format!(
                    "get_native_path({name:?}) = {native:?} resolves outside the root {:?}{effect}",
                    sb.root
                ),
            );
        }
        // (b) dynamic containment
        match guarded(|| dynamic(&sb, &store, &name, &case.op)) {
            Err(p) => out.failed(panic_site(&p), format!("{:?}({name:?}) panicked: {p}", case.op)),
            Ok(Some((k, m))) => out.failed(k, format!("{:?}({name:?}): {m}", case.op)),
            Ok(None) => out,
        }
    }
}

fn action(code: u8) -> FileStoreAction {
    match code % 9 {
        0 => FileStoreAction::CreateFile,
        1 => FileStoreAction::DeleteFile,
        2 => FileStoreAction::RenameFile,
        3 => FileStoreAction::AppendFile,
        4 => FileStoreAction::ReplaceFile,
        5 => FileStoreAction::CreateDirectory,
        6 => FileStoreAction::RemoveDirectory,
        7 => FileStoreAction::DenyFile,
        _ => FileStoreAction::DenyDirectory,
    }
}

fn dynamic(sb: &Sandbox, store: &NativeFileStore, name: &str, op: &Op) -> Option<(String, String)> {
    reset(sb);
    let mut before = vec![];
    snapshot(&sb.top, &sb.root, &mut before);
    let mut leaked: Option<String> = None;
    let check_bytes = |data: &[u8]| data.windows(8).any(|w| w == &SENTINEL[..8]);
    match op {
        Op::CreateFile => {
            let _ = store.create_file(name);
        }
        Op::DeleteFile => {
            let _ = store.delete_file(name);
        }
        Op::RenameFrom => {
            let _ = store.rename_file(name, "renamed");
        }
        Op::RenameTo => {
            let _ = store.rename_file("inner", name);
        }
        Op::AppendTarget => {
            let _ = store.append_file(name, "inner");
        }
        Op::AppendSource => {
            if store.append_file("inner", name).is_ok() {
                if let Ok(d) = std::fs::read(sb.root.join("inner")) {
                    if check_bytes(&d) {
                        leaked = Some("append copied sentinel data into the root".into());
                    }
                }
            }
        }
        Op::ReplaceTarget => {
            let _ = store.replace_file(name, "inner");
        }
        Op::ReplaceSource => {
            if store.replace_file("inner", name).is_ok() {
                if let Ok(d) = std::fs::read(sb.root.join("inner")) {
                    if check_bytes(&d) {
                        leaked = Some("replace copied sentinel data into the root".into());
                    }
                }
            }
        }
        Op::CreateDirectory => {
            let _ = store.create_directory(name);
        }
        Op::RemoveDirectory => {
            let _ = store.remove_directory(name);
        }
        Op::OpenWrite => {
            if let Ok(mut f) = store.open(name, OpenOptions::new().create(true).write(true).truncate(true)) {
                let _ = f.write_all(b"written by c12");
            }
        }
        Op::OpenRead => {
            if let Ok(mut f) = store.open(name, OpenOptions::new().read(true)) {
                let mut d = vec![];
                let _ = f.read_to_end(&mut d);
                if check_bytes(&d) {
                    leaked = Some("open(read) returned sentinel data".into());
                }
            }
        }
        Op::GetSize => {
            if let Ok(n) = store.get_size(name) {
                if n == SENTINEL.len() as u64 {
                    leaked = Some("get_size returned the size of a sentinel".into());
                }
            }
        }
        Op::ListDirectory => {
            if let Ok(l) = store.list_directory(name) {
                if l.contains("rootX") || l.contains("f,x,") || l.contains(",32,") || l.contains("d,l1,") || l.contains("d,l8,") {
                    leaked = Some(format!("list_directory listed entries outside the root: {l:?}"));
                }
            }
        }
        Op::Request1(code) => {
            let req = FileStoreRequest {
                action_code: action(*code),
                first_filename: name.into(),
                second_filename: "inner".into(),
            };
            let _ = store.process_request(&req);
        }
        Op::Request2(code) => {
            let req = FileStoreRequest {
                action_code: action(*code),
                first_filename: "inner".into(),
                second_filename: name.into(),
            };
            let _ = store.process_request(&req);
            if let Ok(d) = std::fs::read(sb.root.join("inner")) {
                if check_bytes(&d) {
                    leaked = Some("request copied sentinel data into the root".into());
                }
            }
        }
    }
    let mut after = vec![];
    snapshot(&sb.top, &sb.root, &mut after);
    if before != after {
        let gone: Vec<_> = before.iter().filter(|x| !after.contains(x)).collect();
        let new: Vec<_> = after.iter().filter(|x| !before.contains(x)).collect();
        return Some((
            "outside-modified".into(),
            format!("the tree outside the root changed: removed/changed {gone:?}, new {new:?}"),
        ));
    }
    leaked.map(|l| ("outside-read".to_string(), l))
}

fn all_ops() -> Vec<Op> {
    let mut v = vec![
        Op::CreateFile,
        Op::DeleteFile,
        Op::RenameFrom,
        Op::RenameTo,
        Op::AppendTarget,
        Op::AppendSource,
        Op::ReplaceTarget,
        Op::ReplaceSource,
        Op::CreateDirectory,
        Op::RemoveDirectory,
        Op::OpenWrite,
        Op::OpenRead,
        Op::GetSize,
        Op::ListDirectory,
    ];
    for c in 0..9 {
        v.push(Op::Request1(c));
    }
    for c in [2u8, 3, 4] {
        v.push(Op::Request2(c));
    }
    v
}

const ALPHABET: [&str; 5] = ["a", "b", ".", "..", ""];
fn all_prefixes() -> Vec<Prefix> {
    vec![
        Prefix::None,
        Prefix::Slash,
        Prefix::DoubleSlash,
        Prefix::Root,
        Prefix::RootSlash,
        Prefix::SiblingExt,
        Prefix::Parent,
        Prefix::Dot,
    ]
}

fn names_up_to(k: usize) -> Vec<Name> {
    let mut out = vec![];
    for prefix in all_prefixes() {
        for len in 0..=k {
            let n = ALPHABET.len().pow(len as u32);
            for mut i in 0..n {
                let mut comps = vec![];
                for _ in 0..len {
                    comps.push(ALPHABET[i % ALPHABET.len()].to_string());
                    i /= ALPHABET.len();
                }
                out.push(Name {
                    prefix: prefix.clone(),
                    comps,
                });
            }
        }
    }
    out
}

fn long_name_strategy() -> impl Strategy<Value = FsCase> {
    let comp = prop_oneof![
        3 => Just("..".to_string()),
        2 => Just(".".to_string()),
        1 => Just("".to_string()),
        2 => Just("a".to_string()),
        1 => Just("b".to_string()),
        1 => Just("inner".to_string()),
        1 => Just("x".to_string()),
        1 => Just("rootX".to_string()),
        1 => Just("root".to_string()),
    ];
    let prefix = proptest::sample::select(all_prefixes());
    let op = proptest::sample::select(all_ops());
    (prefix, proptest::collection::vec(comp, 0..8), op).prop_map(|(prefix, mut comps, op)| {
        // at most 7 ".." so that nothing can climb out of the sandbox top (8 levels below it)
        let mut dd = 0;
        comps.retain(|c| {
            if c == ".." {
                dd += 1;
                dd <= 7
            } else {
                true
            }
        });
        FsCase {
            name: Name { prefix, comps },
            op,
        }
    })
}

pub fn run(ctx: &mut Ctx) {
    ctx.rule = "exhaustive: every name = prefix in {none, '/', '//', './', <root>, <root>/, <root>X (sibling extending the root's name), \
<parent of root>} followed by up to K components over {a, b, '.', '..', ''} (K = 4 quick, 5 thorough), times every filestore operation \
(14 direct operations + process_request with all 9 actions as first and the 3 two-name actions as second filename); plus proptest names of \
up to 7 components. Non-trivial = the name contains '..' or starts with the root / sibling / parent path; distinct by (name, operation)."
        .into();
    ctx.assumptions = vec![
        "containment is lexical: symbolic links inside the root are out of scope".into(),
        "the root is given as an absolute path".into(),
    ];
    let part = FsPart;
    ctx.run_known_replays(&part);
    let k = ctx.tier.pick(4usize, 5);
    let names = names_up_to(k);
    let ops = all_ops();
    let n = (names.len() * ops.len()) as u64;
    ctx.section = format!("exhaustive-K{k}");
    ctx.drive_indexed(&part, n, true, |i| {
        let name = names[(i as usize) / ops.len()].clone();
        let op = ops[(i as usize) % ops.len()].clone();
        FsCase { name, op }
    });
    ctx.section = "random-long".into();
    let total = ctx.tier.pick(20_000u64, 200_000);
    ctx.drive_proptest(&part, long_name_strategy(), total, 1000);
    ctx.section.clear();
}
