//! C18 — unacknowledged mode is one-way unless closure is requested; closure works.
//!
//! Engine E2, unacknowledged mode, closure off/on, sizes incl. 0, zero-run contents, every single and
//! double loss over the exchange (exhaustive). Oracle on the trace: PDU kinds per direction, first
//! pass tiles the file once, end points of both transactions, the closure outcome relay, and the
//! receiver's delivery code against the harness's exact model of what was delivered.

use super::c01::{metadata_delivered, undelivered_ranges};
use super::c03::bound_ms;
use super::simutil::*;
use crate::common::*;
use crate::sim::*;
use cfdp_core::pdu::{Condition, DeliveryCode, FileDataPDU, Operations, PDUPayload};
use proptest::prelude::*;
use serde::{Deserialize, Serialize};

#[derive(Clone, Debug, Serialize, Deserialize)]
pub struct C18Case {
    pub sc: Scenario,
}

fn fail(tr: &Trace, key: &str, msg: String) -> Fail {
    Fail {
        key: key.to_string(),
        msg: format!("{msg}\n{}", tr.render(160)),
    }
}

pub fn check_unack(sc: &Scenario, tr: &Trace) -> Result<(), Fail> {
    let p = &sc.puts[0];
    let id = sc.put_id(0);
    let closure = sc.entities[p.from].cfg.closure;
    let size = p.file.as_ref().map(|f| f.size as u64).unwrap_or(0);
    let seg = sc.entities[p.from].cfg.seg as u64;
    // ---- receiver -> sender: nothing without closure, only Finished with closure
    for d in tr.emitted(p.to, p.from) {
        let k = kind_of(&d.pdu);
        let ok = closure && k == Kind::Finished;
        if !ok {
            return Err(fail(
                tr,
                &format!("receiver-sent:{k:?}:closure-{closure}"),
                format!("in unacknowledged mode (closure {closure}) the receiver emitted a {k:?} PDU at {} ms", d.t),
            ));
        }
    }
    // ---- sender -> receiver: Metadata, the file once, EOF
    let fwd = tr.emitted(p.from, p.to);
    let mut next_off = 0u64;
    let mut seen_meta = 0;
    let mut eofs = 0;
    for d in &fwd {
        match d.pdu.as_ref().map(|x| &x.payload) {
            Some(PDUPayload::Directive(Operations::Metadata(_))) => {
                seen_meta += 1;
                if seen_meta > 1 || next_off > 0 || eofs > 0 {
                    return Err(fail(tr, "sender-metadata-repeated-or-late", format!("Metadata emitted again or out of place at {} ms", d.t)));
                }
            }
            Some(PDUPayload::FileData(FileDataPDU::Unsegmented(fd))) => {
                if eofs > 0 {
                    return Err(fail(tr, "sender-data-after-eof", format!("file data emitted after EOF at {} ms", d.t)));
                }
                let len = fd.file_data.len() as u64;
                // the implementation emits one zero-length PDU for an empty file: carries no bytes, tallied only
                if size == 0 && len == 0 {
                    continue;
                }
                if fd.offset != next_off || len == 0 || len > seg || fd.offset + len > size {
                    return Err(fail(
                        tr,
                        "sender-data-not-tiling",
                        format!("file data [{}, {}) emitted where offset {next_off} was due (segment {seg}, size {size})", fd.offset, fd.offset + len),
                    ));
                }
                next_off += len;
            }
            Some(PDUPayload::Directive(Operations::EoF(e))) => {
                eofs += 1;
                if next_off != size && e.condition == cfdp_core::pdu::Condition::NoError {
                    return Err(fail(tr, "sender-eof-before-all-data", format!("EOF emitted after {next_off} of {size} bytes")));
                }
                if !closure && eofs > 1 {
                    return Err(fail(tr, "sender-eof-repeated", "EOF emitted more than once without closure".into()));
                }
            }
            other => {
                return Err(fail(
                    tr,
                    "sender-sent-other",
                    format!("the unacknowledged sender emitted {:?} at {} ms", other.map(|_| kind_of(&d.pdu)), d.t),
                ))
            }
        }
    }
    // ---- end points
    let eof_emit = fwd.iter().find(|d| kind_of(&d.pdu) == Kind::Eof).map(|d| d.t);
    let s_term = tr.terminated_at(p.from, id);
    let slack = 20 + 4 * (sc.tau_ms + sc.lat_ms);
    if !closure {
        match (eof_emit, s_term) {
            (Some(te), Some(ts)) if ts <= te + slack => {}
            (te, ts) => {
                return Err(fail(
                    tr,
                    "sender-does-not-end-on-eof",
                    format!("without closure the sender must end on EOF: EOF on the link at {te:?} ms, sender terminated at {ts:?} ms"),
                ))
            }
        }
    }
    let eof_delivered = tr
        .deliveries
        .iter()
        .filter(|(_, to, di)| *to == p.to && !tr.dgrams[*di].corrupted && kind_of(&tr.dgrams[*di].pdu) == Kind::Eof)
        .map(|d| d.0)
        .min();
    // the receive transaction that saw the EOF
    if let (Some(te), false) = (eof_delivered, closure) {
        let ends: Vec<u64> = tr
            .inds_of(p.to, id)
            .iter()
            .filter_map(|r| match &r.ind {
                cfdp_core::daemon::Indication::Report(rep) if rep.state == cfdp_core::transaction::TransactionState::Terminated => Some(r.t),
                _ => None,
            })
            .collect();
        if !ends.iter().any(|t| *t >= te && *t <= te + slack) {
            return Err(fail(
                tr,
                "receiver-does-not-end-on-eof",
                format!("without closure the receiver must end when the EOF arrives ({te} ms); it terminated at {ends:?}"),
            ));
        }
    }
    // ---- closure
    if closure {
        let fin_delivered: Vec<(u64, &cfdp_core::pdu::Finished)> = tr
            .deliveries
            .iter()
            .filter(|(_, to, di)| *to == p.from && !tr.dgrams[*di].corrupted)
            .filter_map(|(t, _, di)| match tr.dgrams[*di].pdu.as_ref().map(|x| &x.payload) {
                Some(PDUPayload::Directive(Operations::Finished(f))) => Some((*t, f)),
                _ => None,
            })
            .collect();
        // the Finished PDU carries the receiver's true outcome
        let r_fin = tr.finished_inds(p.to, id);
        for d in tr.emitted(p.to, p.from) {
            if let Some(PDUPayload::Directive(Operations::Finished(f))) = d.pdu.as_ref().map(|x| &x.payload) {
                let matches_some = r_fin.iter().any(|(t, ri)| *t <= d.t && ri.report.condition == f.condition && ri.delivery_code == f.delivery_code && ri.file_status == f.file_status);
                if !matches_some {
                    return Err(fail(
                        tr,
                        "finished-pdu-not-true-outcome",
                        format!(
                            "Finished PDU at {} ms says ({:?}, {:?}, {:?}) but no Finished indication of the receiver before it says so",
                            d.t, f.condition, f.delivery_code, f.file_status
                        ),
                    ));
                }
            }
        }
        // the receiver sends Finished: once it knows that closure was requested (Metadata delivered) and has reached an
        // outcome of its own (delivery finalised, or a fault handled by cancelling), a Finished PDU goes out - whatever the
        // outcome is. (An abandoned transaction sends nothing more.)
        if let Some((t_o, ri)) = r_fin.first() {
            let meta_before = tr
                .deliveries
                .iter()
                .any(|(t, to, di)| *to == p.to && *t <= *t_o && !tr.dgrams[*di].corrupted && kind_of(&tr.dgrams[*di].pdu) == Kind::Metadata);
            let abandoned = tr.inds_of(p.to, id).iter().any(|r| matches!(&r.ind, cfdp_core::daemon::Indication::Abandon(_)) && r.t <= *t_o);
            let sent = tr.emitted(p.to, p.from).iter().any(|d| kind_of(&d.pdu) == Kind::Finished && d.t + 1 >= *t_o);
            if meta_before && !abandoned && !sent {
                return Err(fail(
                    tr,
                    &format!("closure-no-finished-pdu:{:?}", ri.report.condition),
                    format!(
                        "closure requested and known to the receiver: it reported its outcome ({:?}, {:?}) at {t_o} ms but never sent a Finished PDU",
                        ri.report.condition, ri.delivery_code
                    ),
                ));
            }
        }
        // "the sender waits for it (up to its limits)": a Finished PDU that arrives after the sender has declared a limit
        // fault of its own came too late to be waited for
        let t_giveup = tr.inds_of(p.from, id).iter().find_map(|r| match &r.ind {
            cfdp_core::daemon::Indication::Fault(f) if matches!(f.condition, Condition::PositiveLimitReached | Condition::InactivityDetected) => Some(r.t),
            _ => None,
        });
        match fin_delivered.iter().find(|(tf, _)| t_giveup.map(|tg| *tf < tg).unwrap_or(true)) {
            Some((tf, f)) => {
                // the sender waits for it ...
                match s_term {
                    Some(ts) if ts + 1 >= *tf && ts <= *tf + slack => {}
                    other => {
                        let key = if other.map(|ts| ts < *tf).unwrap_or(false) {
                            "closure-sender-ended-before-finished"
                        } else {
                            "closure-sender-did-not-end-after-finished"
                        };
                        return Err(fail(
                            tr,
                            key,
                            format!("closure requested: Finished reached the sender at {tf} ms but the sender terminated at {other:?} ms"),
                        ));
                    }
                }
                // ... and reports that outcome to its user
                let s_fin = tr.finished_inds(p.from, id);
                match s_fin.last() {
                    Some((_, si)) if si.report.condition == f.condition && si.delivery_code == f.delivery_code && si.file_status == f.file_status => {}
                    Some((_, si)) => {
                        let key = if si.report.condition == f.condition && si.delivery_code == f.delivery_code {
                            "closure-outcome-not-relayed:file-status"
                        } else {
                            "closure-outcome-not-relayed"
                        };
                        return Err(fail(
                            tr,
                            key,
                            format!(
                                "the sender's user was told ({:?}, {:?}, {:?}) but the Finished PDU said ({:?}, {:?}, {:?})",
                                si.report.condition, si.delivery_code, si.file_status, f.condition, f.delivery_code, f.file_status
                            ),
                        ));
                    }
                    None => return Err(fail(tr, "closure-outcome-not-relayed", "the sender never reported Finished to its user".into())),
                }
            }
            None => {
                // Finished never arrived: the sender must still end within its limits
                if tr.alive_at_end(p.from, id) {
                    return Err(fail(tr, "closure-sender-never-ends", "Finished never arrived and the sender is still alive at the end".into()));
                }
                if let (Some(ts), Some(te)) = (s_term, eof_emit) {
                    if ts > te + bound_ms(sc, p.from) {
                        return Err(fail(tr, "closure-sender-ends-too-late", format!("sender ended at {ts} ms, EOF at {te} ms")));
                    }
                    // and it must really have waited: ending together with the EOF is not waiting
                    if ts <= te + slack && tr.emitted(p.to, p.from).iter().any(|d| kind_of(&d.pdu) == Kind::Finished) {
                        return Err(fail(
                            tr,
                            "closure-sender-ended-before-finished",
                            format!("closure requested: the sender ended at {ts} ms, right with its EOF ({te} ms), without waiting for the Finished PDU the receiver sent"),
                        ));
                    }
                }
            }
        }
    }
    // ---- a receiver that is missing data or metadata does not report a complete delivery
    if p.file.is_some() {
        let missing = undelivered_ranges(sc, tr, 0);
        let meta = metadata_delivered(sc, tr, 0);
        if !missing.is_empty() || !meta {
            for (t, f) in tr.finished_inds(p.to, id) {
                if f.delivery_code == DeliveryCode::Complete {
                    return Err(fail(
                        tr,
                        if meta { "complete-with-missing-data" } else { "complete-without-metadata" },
                        format!("the receiver reported delivery Complete at {t} ms although metadata delivered = {meta} and bytes {missing:?} never arrived"),
                    ));
                }
            }
        }
    }
    // both sides gone at the end
    for e in [p.from, p.to] {
        if tr.alive_at_end(e, id) {
            return Err(fail(tr, "never-ends", format!("transaction still alive at entity {e} at the end")));
        }
    }
    Ok(())
}

pub struct C18Part;
impl Part for C18Part {
    type Case = C18Case;
    fn name(&self) -> &'static str {
        "unack"
    }
    fn run(&self, case: &C18Case) -> CaseOut {
        let sc = &case.sc;
        let tr = run_scenario(sc);
        let mut out = CaseOut::ok();
        let closure = sc.entities[0].cfg.closure;
        let lost = tr.dgrams.iter().filter(|d| matches!(d.fate, Fate::Dropped(_))).count();
        if closure || lost > 0 {
            out = out.nt(hash_json(sc));
        }
        out = out
            .class_if(closure, "closure")
            .class_if(!closure, "no-closure")
            .class_if(lost == 0, "no-loss")
            .class_if(lost == 1, "1-loss")
            .class_if(lost >= 2, ">=2-losses")
            .class_if(tr.dgrams.iter().any(|d| matches!(d.fate, Fate::Dropped(_)) && kind_of(&d.pdu) == Kind::Finished), "finished-lost")
            .class_if(tr.dgrams.iter().any(|d| matches!(d.fate, Fate::Dropped(_)) && kind_of(&d.pdu) == Kind::Eof), "eof-lost")
            .class_if(tr.dgrams.iter().any(|d| matches!(d.fate, Fate::Dropped(_)) && kind_of(&d.pdu) == Kind::Metadata), "metadata-lost");
        if let Some(f) = common_failures(sc, &tr) {
            return out.failed(f.key, f.msg);
        }
        match check_unack(sc, &tr) {
            Ok(()) => out,
            Err(f) => out.failed(f.key, f.msg),
        }
    }
}

fn bases(seed: u64) -> Vec<Scenario> {
    let mut v = vec![];
    let mut rng = Prng::new(seed);
    for closure in [false, true] {
        for null in [false, true] {
            for (size, class) in [
                (0u32, ContentClass::Random),
                (1, ContentClass::Random),
                (32, ContentClass::Random),
                (100, ContentClass::ZeroRuns { seg: 32 }),
                (96, ContentClass::Neutral),
                (70, ContentClass::ZeroTail { n: 40 }),
            ] {
                let cfg = CfgSpec {
                    seg: 32,
                    max_count: 2 + rng.below(2) as u32,
                    ti: 2 + rng.below(3) as i64,
                    ta: 1 + rng.below(2) as i64,
                    tn: 1 + rng.below(2) as i64,
                    crc: rng.chance(1, 3),
                    closure,
                    null_checksum: null,
                    nak: NakSpec { immediate: rng.chance(1, 2), delay_ms: 0 },
                    handlers: vec![],
                };
                let mut sc = Scenario::two_entities(cfg.clone(), cfg.clone());
                sc.seed = rng.next();
                sc.puts.push(simple_put(size, class, rng.next(), true));
                sc.horizon_ms = 3 * bound_ms(&sc, 0) + 10_000;
                v.push(sc);
            }
        }
    }
    v
}

pub fn run(ctx: &mut Ctx) {
    ctx.rule = "unacknowledged mode; closure off/on x Modular/Null checksum x (size, content) in {0, 1, 32, 100 zero-runs, 96 checksum-neutral, 70 zero-tail} with segment 32; \
every single loss and every pair of losses over all datagrams of both directions (ordinals 0..n+2, so retransmitted Finished/EOF are hit too) - exhaustive; a Prompt(NAK), Prompt(keep-alive) or duplicate Metadata delivered to the receiver after every datagram of the transfer, with and without an earlier loss - exhaustive; plus proptest scenarios \
from the general generator restricted to unacknowledged mode (drop/duplicate/delay/corrupt). Non-trivial = closure on, or at least one datagram lost; distinct by scenario."
        .into();
    ctx.assumptions = vec![
        "with closure the sender may repeat its EOF while it waits for Finished (the statement bounds the wait, not the number of EOFs); without closure exactly one EOF".into(),
        "a zero-length file-data PDU for an empty file carries no bytes and is tallied, not judged".into(),
    ];
    let part = C18Part;
    ctx.run_known_replays(&part);
    let bs = bases(ctx.seed);
    let mut cases = vec![];
    for sc in &bs {
        let (a, b) = baseline_counts(sc);
        let mut slots: Vec<(usize, usize, u32)> = vec![];
        for k in 0..a + 2 {
            slots.push((0, 1, k));
        }
        for k in 0..b + 2 {
            slots.push((1, 0, k));
        }
        cases.push(C18Case { sc: sc.clone() });
        for i in 0..slots.len() {
            let mut s = sc.clone();
            s.faults = vec![Fault { from: slots[i].0, to: slots[i].1, ordinal: slots[i].2, kind: FaultKind::Drop }];
            cases.push(C18Case { sc: s.clone() });
            for j in i + 1..slots.len() {
                let mut s2 = s.clone();
                s2.faults.push(Fault { from: slots[j].0, to: slots[j].1, ordinal: slots[j].2, kind: FaultKind::Drop });
                cases.push(C18Case { sc: s2 });
            }
        }
    }
    ctx.section = "every-single-and-double-loss".into();
    ctx.drive_list(&part, cases, true);
    // PDUs an unacknowledged-mode receiver has nothing to say to: a Prompt (NAK / keep-alive), a duplicate of the Metadata - delivered after datagram k of the transfer, optionally with one earlier loss so that the
    // receiver has something it *could* report. Whatever it does with them, it answers with no ACK, NAK or keep-alive.
    let mut cases = vec![];
    for sc in &bs {
        let (a, _) = baseline_counts(sc);
        let pup = crate::puppet::Pup::for_put(sc, 0);
        let p0 = &sc.puts[0];
        let size = p0.file.as_ref().map(|f| f.size as u64).unwrap_or(0);
        let extras: Vec<Vec<u8>> = vec![
            pup.prompt(true),
            pup.prompt(false),
            pup.metadata(size, &p0.src_name, &p0.dst_name, sc.entities[0].cfg.closure, sc.entities[0].cfg.null_checksum, vec![]),
        ];
        for (xi, bytes) in extras.iter().enumerate() {
            for k in 0..a {
                for lost in [None, Some(1u32), Some(0u32)] {
                    if lost == Some(k) || (xi >= 2 && lost.is_some() && k % 2 == 1) {
                        continue;
                    }
                    let mut s = sc.clone();
                    if let Some(l) = lost {
                        s.faults.push(Fault { from: 0, to: 1, ordinal: l, kind: FaultKind::Drop });
                    }
                    s.actions.push(Action {
                        trigger: Trigger::OnOrdinal { from: 0, to: 1, ordinal: k, delay_ms: sc.lat_ms + 1 },
                        entity: 0,
                        kind: ActionKind::Inject { to: 1, as_from: 0, bytes: bytes.clone() },
                    });
                    cases.push(C18Case { sc: s });
                }
            }
        }
    }
    ctx.section = "pdus-not-to-be-answered".into();
    ctx.drive_list(&part, cases, true);
    ctx.section = "random-unack".into();
    let n = ctx.tier.pick(20_000u64, 1_500_000);
    ctx.drive_proptest(&part, scenario_strategy(Modes::UnackOnly, 4).prop_map(|sc| C18Case { sc }), n, 200);
    ctx.section.clear();
}
