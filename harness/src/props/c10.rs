//! C10 — cancel ends both sides and never leaves a partial file.
//!
//! Engine E2. A user Cancel is issued at the sender or at the receiver when the link sees the k-th
//! datagram of either direction (every k of the baseline exchange: exhaustive), alone, combined
//! with the loss of each datagram emitted after the cancel (learnt from the loss-free cancel run),
//! and combined with a blackout after the cancel. Both modes, closure on/off.
//! Oracle: (1) the cancelling entity's transaction is gone by t_cancel + B; (2) on a link that is
//! not blacked out the peer's transaction is gone too, and when no Finished indication preceded
//! the cancel and the peer can hear of it, both users see the CancelReceived condition; (3) the
//! destination exists only if the receiver reported a successful complete delivery, and then it
//! equals the source — at every Finished indication and at the end.

use super::c03::bound_ms;
use super::simutil::*;
use crate::common::*;
use crate::sim::*;
use cfdp_core::daemon::Indication;
use cfdp_core::pdu::{Condition, Operations, PDUPayload};
use cfdp_core::transaction::TransactionState;
use proptest::prelude::*;
use serde::{Deserialize, Serialize};

#[derive(Clone, Debug, Serialize, Deserialize)]
pub struct C10Case {
    pub sc: Scenario,
}

fn fail(tr: &Trace, key: &str, msg: String) -> Fail {
    Fail {
        key: key.to_string(),
        msg: format!("{msg}\n{}", tr.render(200)),
    }
}

fn saw_cancel(tr: &Trace, entity: usize, id: cfdp_core::transaction::TransactionID) -> bool {
    tr.inds_of(entity, id).iter().any(|r| match &r.ind {
        Indication::Finished(f) => f.report.condition == Condition::CancelReceived,
        Indication::Abandon(f) => f.condition == Condition::CancelReceived,
        Indication::Report(rep) => rep.state == TransactionState::Terminated && rep.condition == Condition::CancelReceived,
        _ => false,
    })
}

pub fn check_cancel(sc: &Scenario, tr: &Trace) -> Result<&'static str, Fail> {
    let p = &sc.puts[0];
    let id = sc.put_id(0);
    let Some((t_cancel, who, _)) = tr.cmds.iter().find(|c| c.2.starts_with("Cancel")).cloned() else {
        return Ok("no-cancel-issued");
    };
    let peer = if who == p.from { p.to } else { p.from };
    let src = p.file.as_ref().map(|f| f.bytes()).unwrap_or_default();
    // was the cancel processed while the transaction was active at `who`?
    // strictly before: a request issued in the very millisecond in which the transaction is being created at this
    // entity may reach the daemon first and find nothing to cancel
    let started = tr.inds_of(who, id).iter().any(|r| r.t < t_cancel);
    let ended_before = tr.terminated_at(who, id).map(|t| t < t_cancel).unwrap_or(false);
    let active = started && !ended_before;
    // (3) destination rule, at every Finished indication at the receiver and at the end
    let receiver_success_times: Vec<u64> = tr.finished_inds(p.to, id).iter().filter(|(_, f)| is_success(f)).map(|x| x.0).collect();
    // In unacknowledged mode an EOF (NoError) finalizes whatever is held and the implementation retains an
    // incomplete file, reported as (NoError, Incomplete, Retained): that exposure is the EOF's doing, not the
    // cancel's, and is outside this property. It is recognisable by a NoError Finished indication of the receiver.
    let eof_finalized_incomplete = p.unack
        && tr
            .finished_inds(p.to, id)
            .iter()
            .any(|(_, f)| f.report.condition == Condition::NoError && !is_success(f));
    if eof_finalized_incomplete {
        for e in [p.from, p.to] {
            if tr.alive_at_end(e, id) {
                return Err(fail(tr, "never-ends", format!("transaction alive at entity {e} at the end")));
            }
        }
        return Ok("unack-incomplete-finalized-by-eof");
    }
    for s in tr.snaps.iter().filter(|s| s.entity == p.to) {
        if let Some(c) = &s.content {
            let ok = receiver_success_times.iter().any(|t| *t <= s.t) && *c == src;
            if !ok {
                return Err(fail(
                    tr,
                    "partial-file-exposed",
                    format!(
                        "at {} ms the destination exists ({} bytes, equals source: {}) although the receiver had reported success at {:?}",
                        s.t,
                        c.len(),
                        *c == src,
                        receiver_success_times
                    ),
                ));
            }
        }
    }
    if let Some(c) = tr.file_at(p.to, &p.dst_name) {
        if receiver_success_times.is_empty() || c != src {
            return Err(fail(
                tr,
                "partial-file-exposed",
                format!(
                    "at the end the destination exists ({} bytes, equals source: {}); receiver success reports at {:?}",
                    c.len(),
                    c == src,
                    receiver_success_times
                ),
            ));
        }
    }
    if !active {
        // every transaction must still be gone at the end
        for e in [p.from, p.to] {
            if tr.alive_at_end(e, id) {
                return Err(fail(tr, "never-ends", format!("transaction alive at entity {e} at the end")));
            }
        }
        return Ok("cancel-not-while-active");
    }
    // (0') once the cancel has taken effect at the receiver - at the request itself when the receiver's user cancels, at the arrival
    // of the cancel notice otherwise - that transaction does not go on to deliver the file (a second transaction for the same id,
    // started by stragglers after the first one ended, is not "that transaction")
    {
        let t_probe = tr.probes.iter().map(|p| p.t).min().unwrap_or(u64::MAX);
        let instances = tr
            .inds_of(p.to, id)
            .iter()
            .filter(|r| r.t < t_probe && matches!(&r.ind, Indication::Report(rep) if rep.state == TransactionState::Active))
            .count();
        let t_eff = if who == p.to {
            Some(t_cancel)
        } else {
            // (a delivered datagram can wait in the transport handler's inbox: the moment the notice is processed is the
            // receiver's own Finished indication with the cancel condition)
            tr.finished_inds(p.to, id).iter().filter(|(_, f)| f.report.condition == Condition::CancelReceived).map(|x| x.0).min()
        };
        if let (Some(te), true) = (t_eff, instances <= 1) {
            if let Some(ts) = receiver_success_times.iter().find(|t| **t > te + 2) {
                return Err(fail(
                    tr,
                    "delivered-after-the-cancel-took-effect",
                    format!("the cancel (issued at entity {who} at {t_cancel} ms) took effect at the receiver at {te} ms, yet the receiver reported a complete delivery at {ts} ms"),
                ));
            }
        }
    }
    // (0) a cancelled sender stops transmitting the file: after the request (plus what was already in the transport pipeline)
    // no Metadata or file data leaves it - data sent after the cancel could even complete the delivery that was cancelled
    if who == p.from {
        if let Some(d) = tr
            .emitted(who, peer)
            .iter()
            .find(|d| d.t > t_cancel + 2 * sc.tau_ms + 2 && matches!(kind_of(&d.pdu), Kind::FileData | Kind::Metadata))
        {
            return Err(fail(
                tr,
                "cancelled-sender-keeps-sending",
                format!("cancel issued at the sender at {t_cancel} ms, but it put a {:?} PDU on the link at {} ms", kind_of(&d.pdu), d.t),
            ));
        }
    }
    // (1) the cancelling entity
    let b = bound_ms(sc, who).max(bound_ms(sc, peer));
    let last_stim_who = tr.deliveries.iter().filter(|d| d.1 == who).map(|d| d.0).max().unwrap_or(0).max(t_cancel);
    match tr.terminated_at(who, id) {
        _ if tr.alive_at_end(who, id) => {
            return Err(fail(
                tr,
                if who == p.from { "cancelled-sender-never-ends" } else { "cancelled-receiver-never-ends" },
                format!("cancel issued at entity {who} at {t_cancel} ms; its transaction is still alive at {} ms", tr.end_ms),
            ))
        }
        Some(t) if t > last_stim_who + b => {
            return Err(fail(tr, "cancelled-side-ends-too-late", format!("cancel at {t_cancel} ms, transaction ended at {t} ms (bound {b} ms)")));
        }
        _ => {}
    }
    // (2) the peer
    let blacked_out = !sc.blackouts.is_empty();
    if tr.alive_at_end(peer, id) {
        return Err(fail(tr, "peer-never-ends", format!("the peer transaction at entity {peer} is still alive at the end")));
    }
    if !blacked_out {
        // (the canceller's own Finished indication - the result of the request - falls into the same millisecond and carries the cancel condition)
        let finished_before = [p.from, p.to]
            .iter()
            .any(|e| tr.finished_inds(*e, id).iter().any(|(t, f)| *t < t_cancel || (*t == t_cancel && f.report.condition != Condition::CancelReceived)));
        // can the peer hear of it? ack mode: yes. unack: a sender-side cancel travels in the EOF; a receiver-side cancel only with closure
        let closure = sc.entities[p.from].cfg.closure;
        // (an unacknowledged-mode receiver learns from the Metadata PDU that closure was requested: cancelled before it has that,
        // it has no way - and no duty - to tell the sender)
        let knows_closure = tr
            .deliveries
            .iter()
            .any(|(t, to, di)| *to == p.to && *t < t_cancel && !tr.dgrams[*di].corrupted && kind_of(&tr.dgrams[*di].pdu) == Kind::Metadata);
        let peer_can_hear = !p.unack || who == p.from || (closure && knows_closure);
        // the peer must have a transaction at all (a receiver that never got a PDU has nothing to cancel)
        let peer_started = !tr.inds_of(peer, id).is_empty();
        // losses of the handshake may legitimately end in abandon with another condition at the peer: require
        // the cancel condition only when nothing was lost after the cancel
        let lost_after = tr.dgrams.iter().filter(|d| d.t >= t_cancel && (d.corrupted || matches!(d.fate, Fate::Dropped(_)))).count();
        // one lost PDU of the handshake is repaired by its retransmission when the limits allow one (limit >= 2 on both sides)
        // (and the retransmission comes before anybody's inactivity limit)
        let max_ta = sc.entities.iter().map(|e| e.cfg.ta as u64).max().unwrap_or(0);
        let min_inact = sc.entities.iter().map(|e| e.cfg.max_count as u64 * e.cfg.ti as u64).min().unwrap_or(0);
        // (and the canceller's retransmission count was not already used up by retransmissions before the cancel: the count of
        // consecutive unanswered expirations is not reset by the cancel)
        let used_before = tr
            .emitted(who, peer)
            .iter()
            .filter(|d| d.t <= t_cancel && matches!(kind_of(&d.pdu), Kind::Eof | Kind::Finished))
            .count();
        let lossless = lost_after == 0
            || (lost_after == 1
                && used_before <= 1 && sc.blackouts.is_empty() && sc.entities.iter().all(|e| e.cfg.max_count >= 2) && max_ta * 1000 + 500 < min_inact * 1000);
        // a cancel can lose the race against completion: once the receiver has reported the file delivered
        // (before the cancel took effect there) the delivered outcome is what both sides may report
        let delivered = !receiver_success_times.is_empty();
        // a transaction that had already declared a fault of its own (and is being cancelled or abandoned for that
        // reason) keeps reporting that condition: the user's cancel did not cause its end
        // At the peer "before the cancel" means before the first PDU the canceller emitted after the request reached
        // it: a peer whose own limit expired while the cancel was in flight has begun its own cancellation with its own
        // condition, the two notices cross and each side may report the other's condition.
        let t_heard = tr
            .deliveries
            .iter()
            .filter(|d| d.1 == peer && tr.dgrams[d.2].from == who && tr.dgrams[d.2].t >= t_cancel && !tr.dgrams[d.2].corrupted)
            // the PDU that carries the cancel (what was already in the transport pipeline does not)
            .filter(|d| match tr.dgrams[d.2].pdu.as_ref().map(|x| &x.payload) {
                Some(PDUPayload::Directive(Operations::EoF(e))) => e.condition == Condition::CancelReceived,
                Some(PDUPayload::Directive(Operations::Finished(f))) => f.condition == Condition::CancelReceived,
                _ => false,
            })
            .map(|d| d.0)
            .min()
            // the notice did not get through (the one permitted loss hit it): its retransmission is due one ACK period later;
            // a fault the peer declares before that is "before it heard of the cancel"
            .unwrap_or(t_cancel + sc.entities.iter().map(|e| e.cfg.ta as u64).max().unwrap_or(0) * 1000 + 4 * sc.tau_ms + sc.lat_ms + 10);
        let fault_before = [p.from, p.to].iter().any(|e| {
            let limit = if *e == peer { t_heard.max(t_cancel).saturating_add(2) } else { t_cancel + 2 };
            tr.inds_of(*e, id).iter().any(|r| r.t <= limit && matches!(&r.ind, Indication::Fault(_) | Indication::Abandon(_)))
        });
        // the link may also reorder: a PDU sent before the cancel that is delivered after the cancel notice can start a second
        // transaction at the peer (the first one is gone), whose own outcome then travels back - not the cancel's doing
        let overtaken = tr.dgrams.iter().any(|d| {
            d.from == who && d.to == peer && !d.injected && d.t <= t_cancel + 2 * sc.tau_ms + 2 && matches!(&d.fate, Fate::Delivered(v) if v.iter().any(|t| *t > t_heard))
        }) && t_heard > t_cancel;
        if !finished_before && !delivered && !fault_before && peer_can_hear && peer_started && lossless && !overtaken {
            if !saw_cancel(tr, who, id) {
                return Err(fail(tr, "cancel-not-reported:canceller", format!("the user at entity {who} who cancelled never saw the CancelReceived condition")));
            }
            if !saw_cancel(tr, peer, id) {
                return Err(fail(
                    tr,
                    if peer == p.from { "cancel-not-reported:peer-sender" } else { "cancel-not-reported:peer-receiver" },
                    format!("the peer user at entity {peer} never saw the CancelReceived condition"),
                ));
            }
        }
    }
    Ok("cancel-while-active")
}

pub struct C10Part;
impl Part for C10Part {
    type Case = C10Case;
    fn name(&self) -> &'static str {
        "cancel"
    }
    fn run(&self, case: &C10Case) -> CaseOut {
        let sc = &case.sc;
        let tr = run_scenario(sc);
        let mut out = CaseOut::ok();
        out = out
            .class_if(sc.puts[0].unack, "unack")
            .class_if(!sc.puts[0].unack, "ack")
            .class_if(sc.actions.iter().any(|a| a.entity == 0), "cancel-at-sender")
            .class_if(sc.actions.iter().any(|a| a.entity == 1), "cancel-at-receiver")
            .class_if(!sc.faults.is_empty(), "handshake-loss")
            .class_if(!sc.blackouts.is_empty(), "blackout-after-cancel");
        if let Some(f) = common_failures(sc, &tr) {
            return out.failed(f.key, f.msg);
        }
        match check_cancel(sc, &tr) {
            Ok(label) => {
                if label == "cancel-while-active" {
                    out = out.nt(hash_json(sc));
                }
                out.class(label)
            }
            Err(f) => out.failed(f.key, f.msg),
        }
    }
}

fn bases(seed: u64, tier: Tier) -> Vec<Scenario> {
    let mut v = vec![];
    let mut rng = Prng::new(seed);
    for unack in [false, true] {
        for closure in [false, true] {
            for nak in [NakSpec { immediate: false, delay_ms: 0 }, NakSpec { immediate: true, delay_ms: 50 }] {
                if unack && nak.immediate {
                    continue;
                }
                let sizes: Vec<u32> = tier.pick(vec![0, 100], vec![0, 33, 100, 200]);
                for size in sizes {
                    let cfg = CfgSpec {
                        seg: 32,
                        max_count: 2 + rng.below(2) as u32,
                        ti: 2 + rng.below(3) as i64,
                        ta: 1 + rng.below(2) as i64,
                        tn: 1 + rng.below(2) as i64,
                        crc: rng.chance(1, 3),
                        closure,
                        null_checksum: rng.chance(1, 3),
                        nak: nak.clone(),
                        handlers: vec![],
                    };
                    let mut sc = Scenario::two_entities(cfg.clone(), cfg.clone());
                    sc.seed = rng.next();
                    sc.puts.push(simple_put(size, ContentClass::Random, rng.next(), unack));
                    sc.horizon_ms = 3 * bound_ms(&sc, 0) + 10_000;
                    v.push(sc);
                }
            }
        }
    }
    v
}

fn with_cancel(sc: &Scenario, at: usize, trigger: Trigger) -> Scenario {
    let mut s = sc.clone();
    s.actions.push(Action { trigger, entity: at, kind: ActionKind::Cancel { put: 0 } });
    s
}

pub fn run(ctx: &mut Ctx) {
    ctx.rule = "both modes x closure x 2 NAK procedures x sizes {0,100} (thorough {0,33,100,200}); Cancel at the sender or the receiver triggered when the link sees datagram k of \
direction 0->1 or 1->0, for every k of the baseline exchange, with 0 or 1 ms delay, and at time 0 (exhaustive); each such scenario again with every single datagram emitted after the cancel \
dropped (learnt from the loss-free cancel run: the cancel handshake EOF(cancel)/ACK/Finished/ACK and in-flight data), and with a blackout of both directions / of the direction towards the \
canceller starting 0 or 5 ms after the cancel; the same cancel positions over the exchange with one first-pass datagram lost (cancel while a NAK exchange repairs the loss; acknowledged mode); proptest: cancel + random faults. Non-trivial = the cancel was processed while the transaction was active at that entity; distinct by scenario."
        .into();
    ctx.assumptions = vec![
        "the CancelReceived condition is required at both users only when no datagram was lost after the cancel, no Finished indication preceded it and the mode lets the peer hear of it".into(),
    ];
    let part = C10Part;
    ctx.run_known_replays(&part);
    let bs = bases(ctx.seed, ctx.tier);
    let mut cases = vec![];
    for sc in &bs {
        let (a, b) = baseline_counts(sc);
        let mut cancels: Vec<Scenario> = vec![];
        for at in [0usize, 1] {
            cancels.push(with_cancel(sc, at, Trigger::AtMs(0)));
            for k in 0..a {
                for d in [0u64, 1] {
                    cancels.push(with_cancel(sc, at, Trigger::OnOrdinal { from: 0, to: 1, ordinal: k, delay_ms: d }));
                }
            }
            for k in 0..b {
                cancels.push(with_cancel(sc, at, Trigger::OnOrdinal { from: 1, to: 0, ordinal: k, delay_ms: 0 }));
            }
        }
        for c in cancels {
            // learn what is emitted after the cancel
            let tr = run_scenario(&c);
            cases.push(C10Case { sc: c.clone() });
            let Some((tc, _, _)) = tr.cmds.iter().find(|x| x.2.starts_with("Cancel")).cloned() else { continue };
            let mut n = 0;
            for d in tr.dgrams.iter().filter(|d| !d.injected && d.t >= tc) {
                let mut s = c.clone();
                s.faults.push(Fault { from: d.from, to: d.to, ordinal: d.ord, kind: FaultKind::Drop });
                cases.push(C10Case { sc: s });
                n += 1;
                if n >= 12 {
                    break;
                }
            }
            for delay in [0u64, 5] {
                let mut s = c.clone();
                s.blackouts = vec![Blackout::window(0, 1, tc + delay, None), Blackout::window(1, 0, tc + delay, None)];
                cases.push(C10Case { sc: s });
            }
            let who = c.actions[0].entity;
            let mut s = c.clone();
            s.blackouts = vec![Blackout::window(1 - who, who, tc, None)];
            cases.push(C10Case { sc: s });
        }
    }
    ctx.section = "cancel-at-every-ordinal".into();
    ctx.drive_list(&part, cases, true);

    // cancel while a loss is being repaired: one datagram of the first pass (Metadata or a data segment) is lost, so that a NAK
    // exchange is under way, and the cancel comes at every datagram of the exchange as it runs with that loss
    let mut cases = vec![];
    for sc in bs.iter().filter(|sc| !sc.puts[0].unack && sc.puts[0].file.as_ref().map(|f| f.size >= 100).unwrap_or(false)) {
        let (a0, _) = baseline_counts(sc);
        for lost in 0..a0.saturating_sub(1) {
            let mut f = sc.clone();
            f.faults.push(Fault { from: 0, to: 1, ordinal: lost, kind: FaultKind::Drop });
            let tr = run_scenario(&f);
            let (a, b) = (tr.emitted(0, 1).len() as u32, tr.emitted(1, 0).len() as u32);
            for at in [0usize, 1] {
                for k in 0..a {
                    for d in [0u64, 1] {
                        cases.push(C10Case { sc: with_cancel(&f, at, Trigger::OnOrdinal { from: 0, to: 1, ordinal: k, delay_ms: d }) });
                    }
                }
                for k in 0..b {
                    for d in [0u64, 1] {
                        cases.push(C10Case { sc: with_cancel(&f, at, Trigger::OnOrdinal { from: 1, to: 0, ordinal: k, delay_ms: d }) });
                    }
                }
            }
        }
    }
    ctx.section = "cancel-during-recovery".into();
    ctx.drive_list(&part, cases, true);

    // sampled: general scenarios + a cancel somewhere
    let strat = (scenario_strategy(Modes::Both, 3), any::<bool>(), any::<bool>(), 0u32..14, 0u64..3).prop_map(|(mut sc, at_recv, dir, k, delay)| {
        let (from, to) = if dir { (0, 1) } else { (1, 0) };
        sc.actions.push(Action {
            trigger: Trigger::OnOrdinal { from, to, ordinal: if dir { k } else { k % 4 }, delay_ms: delay },
            entity: if at_recv { 1 } else { 0 },
            kind: ActionKind::Cancel { put: 0 },
        });
        sc.horizon_ms = 3 * bound_ms(&sc, 0).max(bound_ms(&sc, 1)) + 10_000;
        C10Case { sc }
    });
    ctx.section = "cancel+random-faults".into();
    let n = ctx.tier.pick(30_000u64, 1_500_000);
    ctx.drive_proptest(&part, strat, n, 200);
    ctx.section.clear();
}
