//! C11 — concurrent transactions are isolated; stray PDUs cannot disturb the daemon.
//!
//! Engine E2 with 2-3 real daemons: 2..24 overlapping Puts in both directions and mixed modes,
//! each with its own tagged content and destination; random loss / delay / duplication on every
//! link (or none); injected stray PDUs: responses addressed to senders that do not exist, PDUs
//! naming an entity without transport, every kind of to-receiver PDU with fresh ids, and replays of
//! the PDUs of a transaction that has already ended.
//! Oracle: Put ids pairwise distinct; every success claim (either user) shows that transaction's
//! own content at its own destination; every indication names a transaction that exists at that
//! entity; on a loss-free link every Put succeeds despite the stray traffic; with loss every
//! transaction (including those started by strays) is gone at the end and nothing wrong is
//! reported; every daemon is still running and serves a fresh Put afterwards.

use super::simutil::*;
use crate::common::*;
use crate::puppet::Pup;
use crate::sim::*;
use cfdp_core::pdu::*;
use cfdp_core::transaction::TransactionID;
use serde::{Deserialize, Serialize};

#[derive(Clone, Debug, Serialize, Deserialize)]
pub struct C11Case {
    pub sc: Scenario,
    /// ids used by injected stray PDUs, with the entity they were delivered to: (entity, source id, source width, seq, seq width)
    pub stray_ids: Vec<(usize, u64, u8, u64, u8)>,
    /// puts whose PDUs are replayed after their end (final-state clauses do not apply to them)
    pub replayed_puts: Vec<usize>,
    /// the fault script is one lost datagram per directed link: acknowledged Puts must still succeed (C02)
    #[serde(default)]
    pub bounded_loss: bool,
    /// the complete to-receiver PDU sequence of Put #0 is handed to its receiver again from this moment on (shortly after the
    /// end of the receive transaction, mostly before the daemon has cleaned up its routing entry): one new receive transaction
    /// must take all of it and deliver the file once more
    #[serde(default)]
    pub full_replay_at: Option<u64>,
}

fn fail(tr: &Trace, key: &str, msg: String) -> Fail {
    Fail {
        key: key.to_string(),
        msg: format!("{msg}\n{}", tr.render(300)),
    }
}

pub fn check_isolation(case: &C11Case, tr: &Trace) -> Result<Vec<&'static str>, Fail> {
    let sc = &case.sc;
    let mut labels = vec![];
    let lossless = sc.faults.is_empty() && sc.blackouts.is_empty();
    // ---- distinct ids
    let ids: Vec<TransactionID> = (0..sc.puts.len()).map(|k| sc.put_id(k)).collect();
    for i in 0..ids.len() {
        match tr.put_ids[i] {
            // (a puppet sender has no daemon that could answer)
            None if !sc.entities[sc.puts[i].from].present || sc.puts[i].forget => {}
            None => return Err(fail(tr, "put-not-answered", format!("Put #{i} never got a transaction id"))),
            Some(id) => {
                for j in 0..i {
                    if tr.put_ids[j] == Some(id) {
                        return Err(fail(tr, "duplicate-transaction-id", format!("Puts #{j} and #{i} got the same id {id}")));
                    }
                }
            }
        }
    }
    let stray: Vec<(usize, TransactionID)> = case.stray_ids.iter().map(|(e, s, sw, q, qw)| (*e, TransactionID(vid(*s, *sw), vid(*q, *qw)))).collect();
    // ---- every indication belongs to a transaction that exists at that entity
    for r in &tr.inds {
        let id = match &r.ind {
            cfdp_core::daemon::Indication::Transaction(id) | cfdp_core::daemon::Indication::EoFSent(id) | cfdp_core::daemon::Indication::EoFRecv(id) => *id,
            cfdp_core::daemon::Indication::Finished(f) => f.id,
            cfdp_core::daemon::Indication::MetadataRecv(m) => m.id,
            cfdp_core::daemon::Indication::FileSegmentRecv(f) => f.id,
            cfdp_core::daemon::Indication::Suspended(s) => s.id,
            cfdp_core::daemon::Indication::Resumed(s) => s.id,
            cfdp_core::daemon::Indication::Report(s) => s.id,
            cfdp_core::daemon::Indication::Fault(f) | cfdp_core::daemon::Indication::Abandon(f) => f.id,
        };
        let known_put = ids.iter().enumerate().any(|(k, pid)| *pid == id && (sc.puts[k].from == r.entity || sc.puts[k].to == r.entity));
        let known_stray = stray.iter().any(|(e, sid)| *e == r.entity && *sid == id);
        // health-check transactions come after the scripted part
        let health = !tr.health.is_empty() && r.t + 1 >= sc.horizon_ms;
        if !known_put && !known_stray && !health {
            return Err(fail(
                tr,
                "indication-for-foreign-transaction",
                format!("entity {} got a {} indication for {id}, which is neither one of its Puts / receptions nor a stray delivered to it", r.entity, ind_kind(&r.ind)),
            ));
        }
    }
    // ---- a complete replay of Put #0's PDUs after its end starts exactly one new receive transaction, which gets all of them
    if let Some(t0) = case.full_replay_at {
        labels.push("full-replay-after-end");
        let p0 = &sc.puts[0];
        if !tr.finished_inds(p0.to, ids[0]).iter().any(|(t, f)| *t >= t0 && is_success(f)) {
            return Err(fail(
                tr,
                "replayed-exchange-not-taken-by-one-transaction",
                format!("every PDU the receiver of Put #0 ({}) had got was delivered to it again, in order, from {t0} ms on (after the end of its receive transaction), yet no receive transaction reported the delivery again", ids[0]),
            ));
        }
    }
    // ---- per put
    for (k, p) in sc.puts.iter().enumerate() {
        let id = ids[k];
        let src = p.file.as_ref().map(|f| f.bytes()).unwrap_or_default();
        for (who, e) in [("receiver", p.to), ("sender", p.from)] {
            for (idx, t, f) in tr.finished_inds_idx(e, id) {
                if is_success(f) {
                    let snap = tr.snap_for(idx);
                    match snap.and_then(|s| s.content.as_ref()) {
                        Some(c) if *c == src => {}
                        other => {
                            // whose content is it?
                            let whose = other.and_then(|c| sc.puts.iter().position(|q| q.file.as_ref().map(|f| f.bytes() == *c).unwrap_or(false)));
                            return Err(fail(
                                tr,
                                if whose.is_some() { "cross-wired-delivery" } else { "wrong-file-reported-delivered" },
                                format!(
                                    "Put #{k} ({id}): the {who} reported success at {t} ms but the destination {} holds {} (content of Put {whose:?})",
                                    p.dst_name,
                                    other.map(|c| format!("{} bytes", c.len())).unwrap_or("nothing".into())
                                ),
                            ));
                        }
                    }
                }
            }
        }
        if lossless || (case.bounded_loss && !p.unack) {
            let ok_r = tr.finished_inds(p.to, id).iter().any(|(_, f)| is_success(f));
            if !ok_r {
                return Err(fail(tr, "lossless-put-not-delivered", format!("loss-free link (or one loss per link, acknowledged mode): Put #{k} ({id}, {} mode) was not reported delivered by its receiver", if p.unack { "unack" } else { "ack" })));
            }
            if !p.unack && !tr.finished_inds(p.from, id).iter().any(|(_, f)| is_success(f)) {
                return Err(fail(tr, "lossless-put-not-delivered", format!("loss-free link (or one loss per link, acknowledged mode): Put #{k} ({id}) was not reported delivered by its sender")));
            }
            if !case.replayed_puts.contains(&k) && tr.file_at(p.to, &p.dst_name).map(|c| c != src).unwrap_or(true) {
                return Err(fail(tr, "lossless-put-wrong-final-file", format!("loss-free link: destination of Put #{k} does not hold its content at the end")));
            }
        }
        for e in [p.from, p.to] {
            if tr.alive_at_end(e, id) {
                return Err(fail(tr, "transaction-never-ends", format!("Put #{k} ({id}): still alive at entity {e} at the end ({} ms)", tr.end_ms)));
            }
        }
    }
    // ---- transactions started by strays end by their own limits
    for (e, id) in &stray {
        if tr.alive_at_end(*e, *id) {
            return Err(fail(tr, "stray-transaction-never-ends", format!("the receive transaction {id} started by stray PDUs at entity {e} is still alive at the end")));
        }
    }
    if !stray.is_empty() {
        labels.push("strays-injected");
        if stray.iter().any(|(e, id)| !tr.inds_of(*e, *id).is_empty()) {
            labels.push("stray-started-a-transaction");
        }
    }
    // ---- daemons alive and serving
    for (e, ok) in &tr.health {
        if !ok {
            return Err(fail(tr, "daemon-does-not-serve", format!("after the run the daemon of entity {e} did not complete a fresh Put")));
        }
    }
    Ok(labels)
}

pub struct C11Part;
impl Part for C11Part {
    type Case = C11Case;
    fn name(&self) -> &'static str {
        "isolation"
    }
    fn run(&self, case: &C11Case) -> CaseOut {
        let sc = &case.sc;
        let tr = run_scenario(sc);
        let mut out = CaseOut::ok();
        // overlap: two transactions alive at the same time on one daemon
        let mut overlap = false;
        let mut spans: Vec<(usize, u64, u64)> = vec![];
        for k in 0..sc.puts.len() {
            let id = sc.put_id(k);
            for e in [sc.puts[k].from, sc.puts[k].to] {
                if let Some(first) = tr.inds_of(e, id).first().map(|r| r.t) {
                    spans.push((e, first, tr.terminated_at(e, id).unwrap_or(u64::MAX)));
                }
            }
        }
        for i in 0..spans.len() {
            for j in 0..i {
                if spans[i].0 == spans[j].0 && spans[i].1 < spans[j].2 && spans[j].1 < spans[i].2 {
                    overlap = true;
                }
            }
        }
        let strays_routed = tr.dgrams.iter().filter(|d| d.injected).count();
        if overlap || strays_routed > 0 {
            out = out.nt(hash_json(sc));
        }
        out = out
            .class_if(overlap, "overlapping-transactions")
            .class_if(sc.entities.len() == 3, "3-daemons")
            .class_if(sc.faults.is_empty(), "loss-free")
            .class_if(!sc.faults.is_empty(), "lossy")
            .class_if(sc.puts.len() >= 8, ">=8-puts")
            .class_if(!case.replayed_puts.is_empty(), "replay-of-ended-transaction")
            .class_if(!sc.entities[0].present && strays_routed > 100, "burst>100-datagrams");
        if let Some(f) = common_failures(sc, &tr) {
            return out.failed(f.key, f.msg);
        }
        match check_isolation(case, &tr) {
            Ok(labels) => {
                for l in labels {
                    out.classes.push(l);
                }
                out
            }
            Err(f) => out.failed(f.key, f.msg),
        }
    }
}

pub fn build(seed: u64, lossy: bool, with_strays: bool, with_replay: bool, bounded_loss: bool) -> C11Case {
    let mut rng = Prng::new(seed);
    let n_ent = 2 + rng.below(2) as usize;
    let idw = *rng.pick(&[1u8, 2, 4, 8]);
    let seqw = *rng.pick(&[2u8, 4, 8]);
    // every daemon numbers its own transactions: in half of the cases all counters start at the same value, so that
    // transactions of different entities carry the same sequence number and differ in the source entity only
    let common_start = rng.below(200);
    let same_start = rng.chance(1, 2);
    let mut entities = vec![];
    for i in 0..n_ent {
        let cfg = CfgSpec {
            seg: *rng.pick(&[16u16, 32, 64]),
            max_count: 3,
            ti: 6,
            ta: 2,
            tn: 2,
            crc: rng.chance(1, 3),
            closure: rng.chance(1, 2),
            null_checksum: rng.chance(1, 5),
            nak: nak_variants()[rng.below(4) as usize].clone(),
            handlers: vec![],
        };
        entities.push(EntitySpec { id: 1 + i as u64, id_width: idw, present: true, cfg, start_seq: if same_start { common_start } else { rng.below(200) }, seq_width: seqw });
    }
    let mut sc = Scenario {
        seed: rng.next(),
        tau_ms: *rng.pick(&[0u64, 1, 1, 2]),
        lat_ms: rng.below(4),
        entities,
        puts: vec![],
        faults: vec![],
        blackouts: vec![],
        actions: vec![],
        horizon_ms: 90_000,
        preload: vec![],
        health_check: true,
        stop_when_quiet: false,
        yields: 0,
    };
    let many = rng.chance(1, 4);
    let n_puts = 2 + rng.below(if many { 23 } else { 7 }) as usize;
    for k in 0..n_puts {
        let from = rng.below(n_ent as u64) as usize;
        let mut to = rng.below(n_ent as u64 - 1) as usize;
        if to >= from {
            to += 1;
        }
        let seg = sc.entities[from].cfg.seg as u32;
        let size = *rng.pick(&[0u32, 1, seg, 3 * seg + 5, 6 * seg]);
        sc.puts.push(PutSpec {
            at_ms: rng.below(30),
            from,
            to,
            unack: rng.chance(1, 3),
            file: Some(FileSpec { size, class: ContentClass::Tag { tag: 0x20 + k as u8 }, seed: k as u64 }),
            src_name: format!("src_{k}.bin"),
            dst_name: format!("in_from_{from}/dst_{k}.bin"),
            requests: vec![],
            messages: vec![],
            // one Put in five is fire-and-forget: the user drops the answer channel (ids are still consumed in order)
            forget: rng.chance(1, 5),
        });
    }
    if lossy {
        // p <= 0.2 loss, some delays and duplicates, on every link, over the first 60 datagrams of each direction
        let p = 1 + rng.below(20);
        for a in 0..n_ent {
            for b in 0..n_ent {
                if a == b {
                    continue;
                }
                for ord in 0..60u32 {
                    let r = rng.below(100);
                    if r < p {
                        sc.faults.push(Fault { from: a, to: b, ordinal: ord, kind: FaultKind::Drop });
                    } else if r < p + 4 {
                        sc.faults.push(Fault { from: a, to: b, ordinal: ord, kind: FaultKind::Delay { ms: 1 + rng.below(30) } });
                    } else if r < p + 7 {
                        sc.faults.push(Fault { from: a, to: b, ordinal: ord, kind: FaultKind::Dup { extra_ms: rng.below(40) } });
                    }
                }
            }
        }
    }
    if bounded_loss {
        // exactly one lost datagram per directed link, early in the exchange: every acknowledged transfer must recover (C02),
        // and the hit transaction stays open for seconds - across the daemon's cleanup ticks - while others come and go
        for a in 0..n_ent {
            for b in 0..n_ent {
                if a != b {
                    sc.faults.push(Fault { from: a, to: b, ordinal: rng.below(14) as u32, kind: FaultKind::Drop });
                }
            }
        }
    }
    let mut stray_ids = vec![];
    if with_strays {
        let n = 1 + rng.below(12);
        for j in 0..n {
            let to = rng.below(n_ent as u64) as usize;
            let mut peer = rng.below(n_ent as u64 - 1) as usize;
            if peer >= to {
                peer += 1;
            }
            let fresh_seq = 50_000 + j * 7 + rng.below(5);
            let t = rng.below(400);
            let kind = rng.below(10);
            // (source entity, destination entity, direction)
            let (src, dst, bytes): (u64, u64, Vec<u8>) = {
                let mk = |src: u64, dst: u64, unack: bool| Pup { src: vid(src, idw), dst: vid(dst, idw), seq: vid(fresh_seq, seqw), crc: rng_bool(seed, j), large: false, unack };
                let me = sc.entities[to].id;
                let other = sc.entities[peer].id;
                match kind {
                    // responses addressed to a sender that does not exist (this daemon as source)
                    0 => (me, other, mk(me, other, false).ack_eof(Condition::NoError)),
                    1 => (me, other, mk(me, other, false).nak(0, 64, &[(0, 0), (0, 64)])),
                    2 => (me, other, mk(me, other, false).finished(Condition::NoError, true, FileStatusCode::Retained, vec![])),
                    // PDUs naming an entity without transport
                    3 => (77, me, mk(77, me, false).metadata(10, "x", "stray/unknown.bin", false, false, vec![])),
                    4 => (me, 77, mk(me, 77, false).keepalive(5)),
                    // to-receiver PDUs with fresh ids (a known peer as source)
                    5 => (other, me, mk(other, me, rng_bool(seed, j + 100)).metadata(40, "s", &format!("stray/m_{j}.bin"), false, false, vec![])),
                    6 => (other, me, mk(other, me, rng_bool(seed, j + 100)).data(rng_u(seed, j) % 1000, &[0xEE; 24])),
                    7 => (other, me, mk(other, me, rng_bool(seed, j + 100)).eof(Condition::NoError, 0, 0)),
                    8 => (other, me, mk(other, me, false).prompt(true)),
                    _ => (other, me, mk(other, me, false).ack_finished(Condition::NoError)),
                }
            };
            let _ = dst;
            let as_from = sc.entities.iter().position(|e| e.id == src).unwrap_or(peer);
            sc.actions.push(Action { trigger: Trigger::AtMs(t), entity: to, kind: ActionKind::Inject { to, as_from, bytes } });
            stray_ids.push((to, src, idw, fresh_seq, seqw));
        }
    }
    if with_strays {
        // responses that carry the *sequence number* of a live send transaction of this daemon but name another source entity
        // (one without transport): they belong to no transaction here and must be discarded, not handed to the namesake
        for j in 0..rng.below(4) {
            let k = rng.below(sc.puts.len() as u64) as usize;
            let p = sc.puts[k].clone();
            let to = p.from;
            let id = sc.put_id(k);
            let pup = Pup { src: vid(77, idw), dst: vid(sc.entities[p.to].id, idw), seq: id.1, crc: rng_bool(seed, 300 + j), large: false, unack: false };
            let bytes = match rng.below(4) {
                0 => pup.finished(Condition::CancelReceived, false, FileStatusCode::Unreported, vec![]),
                1 => pup.nak(0, 16, &[(0, 16)]),
                2 => pup.ack_eof(Condition::NoError),
                _ => pup.finished(Condition::NoError, true, FileStatusCode::Retained, vec![]),
            };
            let t = p.at_ms + if rng.chance(1, 2) { rng.below(8) } else { rng.below(2500) };
            sc.actions.push(Action { trigger: Trigger::AtMs(t), entity: to, kind: ActionKind::Inject { to, as_from: p.to, bytes } });
        }
    }
    let mut replayed_puts = vec![];
    if with_replay {
        // learn the datagrams of Put #0 from a run without the replay, then replay a random subset after its end
        let tr = run_scenario(&sc);
        let id0 = sc.put_id(0);
        let p0 = sc.puts[0].clone();
        let end = tr.terminated_at(p0.to, id0).unwrap_or(5_000).max(tr.terminated_at(p0.from, id0).unwrap_or(0));
        let cand: Vec<&Dgram> = tr
            .dgrams
            .iter()
            .filter(|d| !d.injected && d.pdu.as_ref().map(|p| pdu_tid(p) == id0).unwrap_or(false))
            .collect();
        let mut t = end + 1500 + rng.below(1000);
        for d in &cand {
            if rng.chance(2, 3) {
                sc.actions.push(Action { trigger: Trigger::AtMs(t), entity: d.to, kind: ActionKind::Inject { to: d.to, as_from: d.from, bytes: d.bytes.clone() } });
                t += 1 + rng.below(5);
            }
        }
        // reflections: the transaction's own PDUs come back to the entity that emitted them (a looping link), around and
        // shortly after the end of that entity's transaction, i.e. also while its routing entry has not been cleaned up yet
        for who in [p0.from, p0.to] {
            let t_term = tr.terminated_at(who, id0).unwrap_or(end);
            for d in cand.iter().filter(|d| d.from == who) {
                if rng.chance(1, 3) {
                    let t = (t_term + rng.below(1600)).saturating_sub(60);
                    sc.actions.push(Action { trigger: Trigger::AtMs(t), entity: who, kind: ActionKind::Inject { to: who, as_from: d.to, bytes: d.bytes.clone() } });
                }
            }
        }
        replayed_puts.push(0);
    }
    C11Case { sc, stray_ids, replayed_puts, bounded_loss, full_replay_at: None }
}

/// A sender re-using an id (or a link replaying a whole exchange): every PDU the receiver of Put #0 got, in order, again, starting
/// 5..1400 ms after its receive transaction ended - inside or just after the window in which the daemon's routing table still
/// holds the channel of the ended transaction. Loss-free scenario without strays.
pub fn build_full_replay(seed: u64) -> C11Case {
    let mut c = build(seed, false, false, false, false);
    let mut rng = Prng::new(seed ^ 0xF011_4E91A7);
    let tr = run_scenario(&c.sc);
    let id0 = c.sc.put_id(0);
    let p0 = c.sc.puts[0].clone();
    let Some(end_r) = tr.terminated_at(p0.to, id0) else {
        return c;
    };
    let cand: Vec<&Dgram> = tr
        .dgrams
        .iter()
        .filter(|d| !d.injected && d.from == p0.from && d.to == p0.to && d.pdu.as_ref().map(|p| pdu_tid(p) == id0 && p.header.direction == Direction::ToReceiver).unwrap_or(false))
        .collect();
    let t0 = end_r + 5 + if rng.chance(3, 4) { rng.below(700) } else { rng.below(1400) };
    let mut t = t0;
    for d in &cand {
        c.sc.actions.push(Action { trigger: Trigger::AtMs(t), entity: d.to, kind: ActionKind::Inject { to: d.to, as_from: d.from, bytes: d.bytes.clone() } });
        t += rng.below(3);
    }
    c.sc.horizon_ms = c.sc.horizon_ms.max(t + 60_000);
    c.replayed_puts.push(0);
    c.full_replay_at = Some(t0);
    c
}

/// A burst: a puppet sender hands 120..320 datagrams of one (or two interleaved) unacknowledged transfers to the real daemon in
/// one instant while the receive transaction is polled late (hook H5), so that its mailbox runs full. A full mailbox is
/// back-pressure, not the end of the transaction: nothing may be dropped, duplicated into a second transaction or mis-routed.
pub fn build_burst(seed: u64) -> C11Case {
    let mut rng = Prng::new(seed);
    let idw = *rng.pick(&[1u8, 2, 4]);
    let seqw = *rng.pick(&[2u8, 4]);
    let seg = 16u16;
    let mk_cfg = |rng: &mut Prng| CfgSpec { seg, max_count: 3, ti: 6, ta: 2, tn: 2, crc: rng.chance(1, 3), closure: false, null_checksum: false, nak: nak_variants()[0].clone(), handlers: vec![] };
    let entities = vec![
        EntitySpec { id: 1, id_width: idw, present: false, cfg: mk_cfg(&mut rng), start_seq: rng.below(200), seq_width: seqw },
        EntitySpec { id: 2, id_width: idw, present: true, cfg: mk_cfg(&mut rng), start_seq: rng.below(200), seq_width: seqw },
    ];
    let mut sc = Scenario {
        seed: rng.next(),
        tau_ms: 0,
        lat_ms: 0,
        entities,
        puts: vec![],
        faults: vec![],
        blackouts: vec![],
        actions: vec![],
        horizon_ms: 30_000,
        preload: vec![],
        health_check: false,
        stop_when_quiet: true,
        yields: *rng.pick(&[3u8, 4, 4]),
    };
    let n_puts = 1 + rng.below(2) as usize;
    for k in 0..n_puts {
        let nsegs = 120 + rng.below(200) as u32;
        sc.puts.push(PutSpec {
            at_ms: 0,
            from: 0,
            to: 1,
            unack: true,
            file: Some(FileSpec { size: nsegs * seg as u32 - rng.below(seg as u64) as u32, class: ContentClass::Tag { tag: 0x40 + k as u8 }, seed: k as u64 }),
            src_name: format!("src_{k}.bin"),
            dst_name: format!("in_from_0/dst_{k}.bin"),
            requests: vec![],
            messages: vec![],
            forget: false,
        });
    }
    // all datagrams of all puts in one instant, the puts interleaved
    let mut streams: Vec<Vec<Vec<u8>>> = vec![];
    for k in 0..n_puts {
        let pup = Pup::for_put(&sc, k);
        let content = sc.puts[k].file.as_ref().unwrap().bytes();
        let mut v = vec![pup.metadata(content.len() as u64, &sc.puts[k].src_name, &sc.puts[k].dst_name, false, false, vec![])];
        for (i, chunk) in content.chunks(seg as usize).enumerate() {
            v.push(pup.data((i * seg as usize) as u64, chunk));
        }
        v.push(pup.eof(Condition::NoError, crate::puppet::modular(&content), content.len() as u64));
        streams.push(v);
    }
    let t = 10u64;
    let longest = streams.iter().map(|v| v.len()).max().unwrap_or(0);
    for i in 0..longest {
        for v in &streams {
            if let Some(bytes) = v.get(i) {
                sc.actions.push(Action { trigger: Trigger::AtMs(t), entity: 0, kind: ActionKind::Inject { to: 1, as_from: 0, bytes: bytes.clone() } });
            }
        }
    }
    C11Case { sc, stray_ids: vec![], replayed_puts: vec![], bounded_loss: false, full_replay_at: None }
}

fn rng_u(seed: u64, j: u64) -> u64 {
    mix(seed ^ 0x5717, j)
}
fn rng_bool(seed: u64, j: u64) -> bool {
    rng_u(seed, j) & 1 == 1
}

pub fn run(ctx: &mut Ctx) {
    ctx.rule = "seeded generation: 2-3 real daemons (id widths 1/2/4/8, different configurations per daemon), 2..8 (one in four: up to 24) Puts issued within 30 ms in any direction (in half of the scenarios all daemons number their transactions from the same start value; one Put in five is fire-and-forget: its user drops the channel on which the id is answered), acknowledged and unacknowledged, sizes \
{0,1,seg,3seg+5,6seg}, contents tagged per transaction, destinations in per-sender directories; six families: loss-free, loss-free + strays, one lost datagram per directed link (acknowledged Puts must still succeed) with and without strays, lossy (per-datagram loss 1..20 %, delays, duplicates on every link) + strays, and \
loss-free + strays + replay of a random subset of the PDUs of Put #0 after it has ended, plus reflections of its PDUs back to the entity that emitted them around the end of that transaction. Strays (1..12 per scenario, plus up to 3 responses that carry the sequence number of a live send transaction but another source entity): ACK/NAK/Finished for a sender that does not exist, PDUs naming entity 77 (no transport), Metadata / FileData / EOF / \
Prompt / ACK(Finished) with fresh ids from a known peer. A seventh family hands 120..320 datagrams of one or two unacknowledged transfers (puppet sender) to the daemon in one instant while the receive transactions are polled late (H5), so that a transaction's mailbox runs full. An eighth (full-replay-after-end) delivers every PDU the receiver of Put #0 had got once more, in order, 5..1400 ms after its receive transaction ended (mostly before the routing entry of the ended transaction is cleaned up): one new receive transaction must take all of it and report the delivery again. Non-trivial = two transactions overlapped in time on one daemon, or at least one stray PDU was routed, or a burst of more than 100 datagrams was handed over; distinct by scenario."
        .into();
    ctx.assumptions = vec![
        "stray ids are disjoint from live transactions; stray Metadata names destinations under stray/; offsets < 1000".into(),
        "under random loss success is not required, only termination and the absence of wrong reports".into(),
        "final-file clauses are skipped for a Put whose own PDUs are replayed after its end".into(),
    ];
    let part = C11Part;
    ctx.run_known_replays(&part);
    let seed = ctx.seed;
    for (name, lossy, strays, replay, bounded, nq, nt) in [
        ("loss-free", false, false, false, false, 1500u64, 60_000u64),
        ("loss-free+strays", false, true, false, false, 2500, 100_000),
        ("lossy+strays", true, true, false, false, 2500, 100_000),
        ("strays+replay", false, true, true, false, 1000, 40_000),
        ("one-loss-per-link", false, false, false, true, 2500, 100_000),
        ("one-loss-per-link+strays", false, true, false, true, 1500, 80_000),
    ] {
        ctx.section = name.into();
        let n = ctx.tier.pick(nq, nt);
        ctx.drive_indexed(&part, n, false, |i| build(mix(seed ^ hash_str(name), i), lossy, strays, replay, bounded));
    }
    let n = ctx.tier.pick(600u64, 30_000);
    ctx.section = "full-replay-after-end".into();
    ctx.drive_indexed(&part, n, false, |i| build_full_replay(mix(seed ^ 0xF0117, i)));
    let n = ctx.tier.pick(400u64, 6_000);
    ctx.section = "burst-into-one-mailbox".into();
    ctx.drive_indexed(&part, n, false, |i| build_burst(mix(seed ^ 0xB0257, i)));
    ctx.section.clear();
}
