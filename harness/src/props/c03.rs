//! C03 — every transaction ends in bounded time, whatever the peer and the link do.
//!
//! Engine E2. Fault scripts: blackout of either or both directions from every ordinal of the
//! baseline exchange (exhaustive); a peer/link that never passes one kind of PDU (Finished, ACKs,
//! NAK, EOF, ...); one blackout combined with one earlier fault; user cancel followed by blackout.
//! Oracle (bounded-time safety under the virtual clock): with t* the last time a datagram was
//! delivered to the entity (or a user request reached it), every transaction instance at that
//! entity is gone by t* + B, B = L*(Ti + Tn + 2*Ta) + NAK delay + exchange time + 5 s; no PDU
//! flood; afterwards, on a healed link, each daemon still serves a fresh Put.

use super::simutil::*;
use crate::common::*;
use crate::sim::*;
use cfdp_core::daemon::Indication;
use cfdp_core::transaction::TransactionState;
use proptest::prelude::*;
use serde::{Deserialize, Serialize};

#[derive(Clone, Debug, Serialize, Deserialize)]
pub struct C03Case {
    pub sc: Scenario,
}

pub fn bound_ms(sc: &Scenario, entity: usize) -> u64 {
    let c = &sc.entities[entity].cfg;
    let exchange: u64 = 40 * (sc.tau_ms + sc.lat_ms + 1) + sc.faults.iter().map(|f| match f.kind {
        FaultKind::Delay { ms } => ms,
        FaultKind::Dup { extra_ms } => extra_ms,
        _ => 0,
    }).sum::<u64>();
    c.max_count as u64 * ((c.ti + c.tn + 2 * c.ta) as u64) * 1000 + c.nak.delay_ms + exchange + 5000
}

/// Every transaction instance that ever showed up at a present entity must be gone by t* + B.
pub fn check_termination(sc: &Scenario, tr: &Trace) -> Result<(), Fail> {
    for (e, es) in sc.entities.iter().enumerate() {
        if !es.present {
            continue;
        }
        let b = bound_ms(sc, e);
        // the final liveness probes are taken before the health check: only look at what happened before them
        let t_probe = tr.probes.iter().filter(|p| p.entity == e).map(|p| p.t).max().unwrap_or(tr.end_ms);
        // last stimulus: datagram delivered to e, or user command / put issued at e
        let mut tstar = tr.deliveries.iter().filter(|d| d.1 == e && d.0 <= t_probe).map(|d| d.0).max().unwrap_or(0);
        for (t, ce, _) in &tr.cmds {
            if *ce == e && *t <= t_probe {
                tstar = tstar.max(*t);
            }
        }
        let mut ids = vec![];
        // (transactions of the post-run health check appear after the final probes and are not judged)
        for r in tr.inds.iter().filter(|r| r.entity == e && r.t < t_probe) {
            let id = match &r.ind {
                Indication::Report(rep) => rep.id,
                _ => continue,
            };
            if !ids.contains(&id) {
                ids.push(id);
            }
        }
        for id in ids {
            let role = if id.0 == sc.entity_id(e) { "send" } else { "receive" };
            if tr.alive_at_end(e, id) {
                if t_probe >= tstar + b {
                    let state = tr.probes.iter().rev().find(|p| p.entity == e && p.id == id).and_then(|p| p.report.clone());
                    // the statement's exception: a transaction the user has suspended (and not resumed) may stay
                    let user_suspended = state.as_ref().map(|r| r.state == TransactionState::Suspended).unwrap_or(false)
                        && sc.actions.iter().any(|a| a.entity == e && matches!(a.kind, ActionKind::Suspend { .. }));
                    if user_suspended {
                        continue;
                    }
                    return Err(Fail {
                        key: format!("never-ends:{role}"),
                        msg: format!(
                            "the {role} transaction {id} at entity {e} still answers at {} ms; last stimulus at {tstar} ms, bound {b} ms; its report: {state:?}\n{}",
                            t_probe,
                            tr.render(220)
                        ),
                    });
                }
                continue;
            }
            // gone: when? (last Terminated report of that id at e); a task that returned an error leaves no report
            let term = tr
                .inds_of(e, id)
                .iter()
                .filter_map(|r| match &r.ind {
                    Indication::Report(rep) if rep.state == TransactionState::Terminated => Some(r.t),
                    _ => None,
                })
                .max();
            if let Some(t) = term {
                if t > tstar + b {
                    return Err(Fail {
                        key: format!("ends-too-late:{role}"),
                        msg: format!(
                            "the {role} transaction {id} at entity {e} ended at {t} ms, later than the last stimulus {tstar} ms + bound {b} ms\n{}",
                            tr.render(220)
                        ),
                    });
                }
            }
        }
    }
    for (e, ok) in &tr.health {
        if !ok {
            return Err(Fail {
                key: "daemon-does-not-serve".into(),
                msg: format!("after the run, on a healed link, the daemon of entity {e} did not complete a fresh Put\n{}", tr.render(200)),
            });
        }
    }
    Ok(())
}

pub struct C03Part;
impl Part for C03Part {
    type Case = C03Case;
    fn name(&self) -> &'static str {
        "termination"
    }
    fn run(&self, case: &C03Case) -> CaseOut {
        let sc = &case.sc;
        let tr = run_scenario(sc);
        let mut out = CaseOut::ok();
        let cut = tr.dgrams.iter().filter(|d| matches!(d.fate, Fate::Dropped(_))).count();
        if cut > 0 {
            out = out.nt(hash_json(sc));
        }
        out = out
            .class_if(cut == 0, "nothing-cut")
            .class_if(sc.puts[0].unack, "unack")
            .class_if(!sc.puts[0].unack, "ack")
            .class_if(sc.blackouts.iter().any(|b| b.kind_mask != 0), "kind-selective")
            .class_if(sc.blackouts.len() >= 2, "both-directions")
            .class_if(!sc.actions.is_empty(), "with-cancel")
            .class_if(!sc.faults.is_empty(), "with-extra-fault")
            .class_if(sc.entities.iter().any(|e| !e.cfg.handlers.is_empty()), "handlers-set");
        if let Some(f) = common_failures(sc, &tr) {
            return out.failed(f.key, f.msg);
        }
        match check_termination(sc, &tr) {
            Ok(()) => out,
            Err(f) => out.failed(f.key, f.msg),
        }
    }
}

fn handler_sets() -> Vec<Vec<(u8, u8)>> {
    // limit conditions: 1 positive ack, 7 nak, 8 inactivity; actions 0 cancel, 3 abandon (ignore/suspend are excluded by the statement)
    vec![
        vec![],
        vec![(1, 3), (7, 3), (8, 3)],
        vec![(1, 0), (7, 0), (8, 3)],
        vec![(8, 0), (1, 3)],
    ]
}

pub fn base_configs(tier: Tier, seed: u64) -> Vec<Scenario> {
    let mut v = vec![];
    let mut rng = Prng::new(seed);
    let naks = nak_variants();
    for unack in [false, true] {
        for closure in [false, true] {
            for (ni, nak) in naks.iter().enumerate() {
                if unack && ni > 0 {
                    continue;
                }
                for (hi, handlers) in handler_sets().into_iter().enumerate() {
                    // thin the grid in quick
                    if tier == Tier::Quick && (ni + hi) % 2 == 1 && !(ni == 0 && hi == 0) {
                        continue;
                    }
                    for size in [0u32, 40, 100] {
                        let cfg = CfgSpec {
                            seg: 32,
                            max_count: 1 + (rng.below(3) as u32),
                            ti: 1 + rng.below(4) as i64,
                            ta: 1 + rng.below(3) as i64,
                            tn: 1 + rng.below(3) as i64,
                            crc: rng.chance(1, 3),
                            closure,
                            null_checksum: false,
                            nak: nak.clone(),
                            handlers: handlers.clone(),
                        };
                        let mut sc = Scenario::two_entities(cfg.clone(), cfg.clone());
                        sc.seed = rng.next();
                        sc.puts.push(simple_put(size, ContentClass::Random, rng.next(), unack));
                        sc.health_check = true;
                        sc.horizon_ms = 3 * bound_ms(&sc, 0) + 10_000;
                        v.push(sc);
                    }
                }
            }
        }
    }
    v
}

/// user requests (what, at the receiver?, counted on direction 0->1?, ordinal, length) and an optional blackout on top of a scenario
pub fn add_chaos(mut sc: Scenario, cmds: &[(u8, bool, bool, u32, u64)], blackout: Option<(u32, u8)>) -> Scenario {
            for &(what, at_recv, dir, k, len) in cmds {
                let who = if at_recv { 1 } else { 0 };
                let trigger = Trigger::OnOrdinal { from: if dir { 0 } else { 1 }, to: if dir { 1 } else { 0 }, ordinal: if dir { k } else { k % 5 }, delay_ms: len % 3 };
                match what {
                    0 => sc.actions.push(Action { trigger, entity: who, kind: ActionKind::Cancel { put: 0 } }),
                    1 => {
                        sc.actions.push(Action { trigger, entity: who, kind: ActionKind::Suspend { put: 0 } });
                        sc.actions.push(Action {
                            trigger: Trigger::OnIndication { entity: who, put: 0, kind: "suspended".into(), delay_ms: len },
                            entity: who,
                            kind: ActionKind::Resume { put: 0 },
                        });
                    }
                    2 => sc.actions.push(Action { trigger, entity: 0, kind: ActionKind::PromptNak { put: 0 } }),
                    3 => sc.actions.push(Action { trigger, entity: 0, kind: ActionKind::PromptKeepAlive { put: 0 } }),
                    _ => sc.actions.push(Action { trigger, entity: who, kind: ActionKind::Report { put: 0 } }),
                }
            }
            if let Some((k, which)) = blackout {
                match which {
                    0 => sc.blackouts.push(Blackout::from_ordinal(0, 1, k)),
                    1 => sc.blackouts.push(Blackout::from_ordinal(1, 0, k % 6)),
                    _ => sc.blackouts.push(Blackout::of_kinds(1, 0, &[Kind::Finished])),
                }
            }
            sc.health_check = true;
            sc.horizon_ms = 3 * bound_ms(&sc, 0).max(bound_ms(&sc, 1)) + 20_000;
    sc
}

/// E4: the chaos family from a libFuzzer choice tape; judged by the same oracle (+ C01's identity clause)
pub fn chaos_from_bytes(data: &[u8]) -> C03Case {
    let mut t = crate::wire::Tape::new(data);
    let sc = scenario_from_tape(&mut t);
    let n = t.below(4);
    let mut cmds = vec![];
    for _ in 0..n {
        cmds.push((t.below(5) as u8, t.bool(), t.bool(), t.below(14) as u32, t.below(3000) as u64));
    }
    let blackout = if t.bool() { Some((t.below(14) as u32, t.below(3) as u8)) } else { None };
    C03Case { sc: add_chaos(sc, &cmds, blackout) }
}

pub fn judge_chaos(case: &C03Case) -> Option<Fail> {
    let sc = &case.sc;
    let tr = run_scenario(sc);
    if let Some(f) = common_failures(sc, &tr) {
        return Some(f);
    }
    if let Err(f) = check_termination(sc, &tr) {
        return Some(f);
    }
    if let Err(f) = super::c01::check_delivered_equals_source(sc, &tr, 0) {
        return Some(f);
    }
    None
}

pub fn run(ctx: &mut Ctx) {
    ctx.rule = "grid: both modes x closure x 6 NAK procedures x 4 fault-handler sets {default, abandon, cancel, mixed} x sizes {0,40,100} with limits 1..3 and timeouts 1..4 s drawn \
per configuration. Per configuration (after a fault-free baseline): blackout of 0->1, of 1->0 and of both from every ordinal 0..=n (exhaustive); a direction that never passes one PDU kind \
(Metadata, FileData, EOF, Finished, ACK(EOF), ACK(Finished), NAK), alone and in pairs (Finished+NAK, ACK(EOF)+Finished, ...); proptest: one blackout + one earlier fault, and user cancel \
at either side followed by a blackout; and a 'chaos' family: the general scenario generator (both modes, every configuration, up to 4 faults) with up to 3 random user requests (cancel, suspend + resume after 0..3 s, \
prompt NAK / keep-alive, report) triggered at random datagram ordinals and an optional blackout. Every run ends with a health check (fresh Put on a healed link). Non-trivial = the script removed at least one datagram; distinct by scenario."
        .into();
    ctx.assumptions = vec![
        "fault handlers are default, cancel or abandon; ignore and suspend are excluded by the statement".into(),
        "bound B = L*(Ti+Tn+2Ta) + NAK delay + exchange time + 5 s, measured from the last datagram delivered to (or user request issued at) the entity".into(),
    ];
    let part = C03Part;
    ctx.run_known_replays(&part);
    let bases = base_configs(ctx.tier, ctx.seed);
    let counts: Vec<(u32, u32)> = bases.iter().map(baseline_counts).collect();
    let mut cases = vec![];
    for (sc, (a, b)) in bases.iter().zip(counts.iter()) {
        cases.push(C03Case { sc: sc.clone() });
        for k in 0..=*a {
            let mut s = sc.clone();
            s.blackouts = vec![Blackout::from_ordinal(0, 1, k)];
            cases.push(C03Case { sc: s });
        }
        for k in 0..=*b {
            let mut s = sc.clone();
            s.blackouts = vec![Blackout::from_ordinal(1, 0, k)];
            cases.push(C03Case { sc: s });
        }
        for k in 0..=*a {
            for j in 0..=*b {
                if (k + j) % 2 == 0 || ctx.tier == Tier::Thorough {
                    let mut s = sc.clone();
                    s.blackouts = vec![Blackout::from_ordinal(0, 1, k), Blackout::from_ordinal(1, 0, j)];
                    cases.push(C03Case { sc: s });
                }
            }
        }
    }
    ctx.section = "blackout-every-ordinal".into();
    ctx.drive_list(&part, cases, ctx.tier == Tier::Thorough);

    let mut cases = vec![];
    let to_recv = [Kind::Metadata, Kind::FileData, Kind::Eof, Kind::AckFin];
    let to_send = [Kind::Finished, Kind::AckEof, Kind::Nak];
    for sc in &bases {
        for k in to_recv {
            let mut s = sc.clone();
            s.blackouts = vec![Blackout::of_kinds(0, 1, &[k])];
            cases.push(C03Case { sc: s });
        }
        for k in to_send {
            let mut s = sc.clone();
            s.blackouts = vec![Blackout::of_kinds(1, 0, &[k])];
            cases.push(C03Case { sc: s });
        }
        for pair in [[Kind::Finished, Kind::Nak], [Kind::Finished, Kind::AckEof], [Kind::AckEof, Kind::Nak]] {
            let mut s = sc.clone();
            s.blackouts = vec![Blackout::of_kinds(1, 0, &pair)];
            cases.push(C03Case { sc: s });
        }
        for (ks, kr) in [(Kind::Finished, Kind::AckFin), (Kind::Finished, Kind::Eof), (Kind::Nak, Kind::FileData), (Kind::AckEof, Kind::Eof)] {
            let mut s = sc.clone();
            s.blackouts = vec![Blackout::of_kinds(1, 0, &[ks]), Blackout::of_kinds(0, 1, &[kr])];
            cases.push(C03Case { sc: s });
        }
    }
    ctx.section = "kind-selective-silence".into();
    ctx.drive_list(&part, cases, true);

    // sampled: blackout + extra fault, and cancel + blackout
    let bases2: Vec<(Scenario, (u32, u32))> = bases.iter().cloned().zip(counts.iter().cloned()).collect();
    let strat = (0..bases2.len(), any::<u64>(), any::<u16>(), any::<u16>(), 0u8..4, fault_strategy(12, false), any::<bool>(), any::<u16>()).prop_map(
        move |(bi, seed, k0, k1, which, fault, cancel, when)| {
            let (sc, (a, b)) = &bases2[bi];
            let mut s = sc.clone();
            s.seed = seed;
            let o0 = ((*a + 2) * k0 as u32) >> 16;
            let o1 = ((*b + 2) * k1 as u32) >> 16;
            s.blackouts = match which {
                0 => vec![Blackout::from_ordinal(0, 1, o0)],
                1 => vec![Blackout::from_ordinal(1, 0, o1)],
                2 => vec![Blackout::from_ordinal(0, 1, o0), Blackout::from_ordinal(1, 0, o1)],
                _ => vec![Blackout::of_kinds(1, 0, &[Kind::Finished]), Blackout::from_ordinal(0, 1, o0 + 2)],
            };
            s.faults = vec![fault];
            if cancel {
                let at_sender = when & 1 == 0;
                let ord = ((*a + 1) * (when as u32 >> 1)) >> 15;
                s.actions.push(Action {
                    trigger: Trigger::OnOrdinal { from: 0, to: 1, ordinal: ord, delay_ms: 0 },
                    entity: if at_sender { 0 } else { 1 },
                    kind: ActionKind::Cancel { put: 0 },
                });
            }
            C03Case { sc: s }
        },
    );
    ctx.section = "blackout+fault+cancel-sampled".into();
    let n = ctx.tier.pick(30_000u64, 1_000_000);
    ctx.drive_proptest(&part, strat, n, 200);
    // "chaos": the general scenario generator (both modes, all configurations, up to 4 faults) plus random user requests
    // (cancel, suspend followed by resume, prompts) and optional blackouts: whatever happens, nothing may spin or stay forever
    let chaos = (
        scenario_strategy(Modes::Both, 4),
        proptest::collection::vec((0u8..5, any::<bool>(), any::<bool>(), 0u32..14, 0u64..3000), 0..4),
        proptest::option::of((0u32..14, 0u8..3)),
    )
        .prop_map(|(sc, cmds, blackout)| C03Case { sc: add_chaos(sc, &cmds, blackout) });
    ctx.section = "chaos-user-requests+faults".into();
    let n = ctx.tier.pick(40_000u64, 2_000_000);
    ctx.drive_proptest(&part, chaos, n, 200);
    ctx.section.clear();
    if ctx.tier == Tier::Thorough {
        // E4: the same family, coverage-guided over the choice tape
        crate::fuzzrun::campaign_into_ctx(ctx, &crate::fuzzrun::Campaign { target: "sim_chaos", runs: 60_000, max_len: 96 }, |data| {
            let case = chaos_from_bytes(data);
            let fail = guarded(|| judge_chaos(&case)).unwrap_or_else(|p| Some(Fail { key: panic_site(&p), msg: p }));
            (fail, serde_json::to_value(&case).unwrap(), "termination")
        });
    }
}
