//! C05 — every well-formed PDU survives encode then decode unchanged, and the announced length
//! equals the number of bytes produced.
//!
//! Engine E1 (+ E4 target `roundtrip` sharing the same builders). Values are built from a choice
//! tape (see wire.rs) inside the wire format's own limits. Oracle: decode(encode(x)) == x,
//! encode(x).len() == encoded_len(x); for a whole PDU additionally: the length field on the wire
//! equals the number of bytes that follow the header, CRC on and off.

use crate::common::*;
use crate::wire::{self, Tape};
use cfdp_core::daemon::Report;
use cfdp_core::pdu::*;
use proptest::prelude::*;
use serde::{Deserialize, Serialize};

#[derive(Clone, Debug, Serialize, Deserialize)]
pub struct RtCase {
    /// pdu | pdu-flags | user_op | report | tlv | fs_request | fs_response | variable_id
    pub kind: String,
    /// for pdu-flags: discrete header fields (6 bits) and id widths
    pub flags: u8,
    pub ew: usize,
    pub sw: usize,
    pub tape: Vec<u8>,
}

fn variant_name<T: std::fmt::Debug>(v: &T) -> String {
    let s = format!("{v:?}");
    s.split(|c: char| !(c.is_alphanumeric() || c == '_'))
        .next()
        .unwrap_or("")
        .to_string()
}

type R = Result<(Vec<u8>, String), (String, String)>;

fn rt_pdu(p: PDU) -> R {
    let name = match &p.payload {
        PDUPayload::FileData(FileDataPDU::Unsegmented(_)) => "FileData".to_string(),
        PDUPayload::FileData(FileDataPDU::Segmented(_)) => "SegmentedFileData".to_string(),
        PDUPayload::Directive(op) => variant_name(op),
    };
    let enc = p.clone().encode();
    let crc = p.header.crc_flag == CRCFlag::Present;
    let announced = p.encoded_len() as usize;
    if !(enc.len() == announced || (crc && enc.len() == announced + 2)) {
        return Err((
            format!("encoded_len:pdu:{name}"),
            format!("PDU::encoded_len() = {announced}, encode() produced {} bytes (crc {crc}): {p:?}", enc.len()),
        ));
    }
    let hl = p.header.encoded_len() as usize;
    let wire_len = u16::from_be_bytes([enc[1], enc[2]]) as usize;
    if hl + wire_len != enc.len() {
        return Err((
            format!("length-field:pdu:{name}"),
            format!(
                "length field on the wire = {wire_len}, bytes after the {hl}-byte header = {}: {p:?}",
                enc.len() - hl
            ),
        ));
    }
    match PDU::decode(&mut enc.as_slice()) {
        Ok(q) if q == p => Ok((enc, name)),
        Ok(q) => Err((
            format!("roundtrip:pdu:{name}"),
            format!("decode(encode(x)) != x\n x = {p:?}\n got {q:?}"),
        )),
        Err(e) => Err((
            format!("roundtrip-error:pdu:{name}"),
            format!("decode(encode(x)) fails with {e}: x = {p:?}"),
        )),
    }
}

macro_rules! rt_simple {
    ($kind:expr, $v:expr, $ty:ty) => {{
        let v = $v;
        let name = variant_name(&v);
        let enc = v.clone().encode();
        if enc.len() != v.encoded_len() as usize {
            Err((
                format!("encoded_len:{}:{}", $kind, name),
                format!("encoded_len() = {}, encode() produced {} bytes: {v:?}", v.encoded_len(), enc.len()),
            ))
        } else {
            match <$ty>::decode(&mut enc.as_slice()) {
                Ok(q) if q == v => Ok((enc, name)),
                Ok(q) => Err((
                    format!("roundtrip:{}:{}", $kind, name),
                    format!("decode(encode(x)) != x\n x = {v:?}\n got {q:?}"),
                )),
                Err(e) => Err((
                    format!("roundtrip-error:{}:{}", $kind, name),
                    format!("decode(encode(x)) fails with {e}: x = {v:?}"),
                )),
            }
        }
    }};
}

fn rt_user_op(op: UserOperation) -> R {
    // name the innermost variant so that findings are identified precisely
    let name = match &op {
        UserOperation::ProxyOperation(p) => variant_name(p),
        UserOperation::Response(p) => format!("Response{}", variant_name(p)),
        UserOperation::Request(p) => format!("Request{}", variant_name(p)),
        other => variant_name(other),
    };
    let enc = op.clone().encode();
    if enc.len() != op.encoded_len() as usize {
        return Err((
            format!("encoded_len:user_op:{name}"),
            format!("encoded_len() = {}, encode() produced {} bytes: {op:?}", op.encoded_len(), enc.len()),
        ));
    }
    match UserOperation::decode(&mut enc.as_slice()) {
        Ok(q) if q == op => Ok((enc, name)),
        Ok(q) => Err((
            format!("roundtrip:user_op:{name}"),
            format!("decode(encode(x)) != x\n x = {op:?}\n got {q:?}"),
        )),
        Err(e) => Err((
            format!("roundtrip-error:user_op:{name}"),
            format!("decode(encode(x)) fails with {e}: x = {op:?}"),
        )),
    }
}

fn rt_report(r: Report) -> R {
    let enc = r.clone().encode();
    match Report::decode(&mut enc.as_slice()) {
        Ok(q) => {
            // Report only derives PartialEq under cfg(test): compare field by field
            if q.id == r.id && q.state == r.state && q.status == r.status && q.condition == r.condition {
                Ok((enc, "Report".into()))
            } else {
                Err((
                    "roundtrip:report:Report".into(),
                    format!("decode(encode(x)) != x\n x = {r:?}\n got {q:?}"),
                ))
            }
        }
        Err(e) => Err((
            "roundtrip-error:report:Report".into(),
            format!("decode(encode(x)) fails with {e}: x = {r:?}"),
        )),
    }
}

pub fn roundtrip(case: &RtCase) -> R {
    let mut t = Tape::new(&case.tape);
    match case.kind.as_str() {
        "pdu" => rt_pdu(wire::pdu(&mut t)),
        "pdu-flags" => rt_pdu(wire::pdu_with(&mut t, Some(case.flags), Some((case.ew, case.sw)))),
        "user_op" => rt_user_op(wire::user_operation(&mut t)),
        "report" => rt_report(wire::report(&mut t)),
        "tlv" => rt_simple!("tlv", wire::metadata_tlv(&mut t, 600), MetadataTLV),
        "fs_request" => rt_simple!("fs_request", wire::filestore_request(&mut t, 512), FileStoreRequest),
        "fs_response" => rt_simple!("fs_response", wire::filestore_response(&mut t, 700), FileStoreResponse),
        "variable_id" => {
            // VariableID::encoded_len() is, by the code base's convention, the width of the value
            // (header.rs and the TLV writers add the length octet themselves): the standalone
            // encoding is that width plus the leading length octet.
            let v = wire::variable_id(&mut t);
            let enc = v.encode();
            if enc.len() != v.encoded_len() as usize + 1 || enc[1..] != v.to_be_bytes()[..] {
                Err((
                    "encoded_len:variable_id".into(),
                    format!("width {} but {} bytes produced: {v:?}", v.encoded_len(), enc.len()),
                ))
            } else {
                match VariableID::decode(&mut enc.as_slice()) {
                    Ok(q) if q == v => Ok((enc, variant_name(&v))),
                    other => Err((
                        "roundtrip:variable_id".into(),
                        format!("decode(encode({v:?})) = {other:?}"),
                    )),
                }
            }
        }
        "header" => {
            let p = wire::pdu(&mut t);
            rt_simple!("header", p.header, PDUHeader)
        }
        other => Err(("bad-kind".into(), format!("unknown kind {other}"))),
    }
}

pub struct RtPart;
impl Part for RtPart {
    type Case = RtCase;
    fn name(&self) -> &'static str {
        "roundtrip"
    }
    fn run(&self, case: &RtCase) -> CaseOut {
        let mut out = CaseOut::ok();
        // minimal value of this kind = the all-zero tape
        let minimal = RtCase {
            tape: vec![],
            ..case.clone()
        };
        let r = guarded(|| (roundtrip(case), roundtrip(&minimal).ok().map(|x| x.0)));
        match r {
            Err(p) => out.failed(
                format!("{}:{}", panic_site(&p), case.kind),
                format!("panic during encode/decode of a well-formed value: {p}; case {case:?}"),
            ),
            Ok((Err((k, m)), _)) => out.failed(k, m),
            Ok((Ok((enc, name)), min_enc)) => {
                if Some(&enc) != min_enc.as_ref() {
                    out = out.nt(hash_of(&(case.kind.as_str(), &enc)));
                }
                // histogram by kind and by variant (leaked static strs are bounded by the number of variants)
                out.classes.push(intern(&format!("{}:{}", case.kind, name)));
                if enc.len() > 4000 {
                    out.classes.push("encoding>4000B");
                }
                out
            }
        }
    }
}

fn intern(s: &str) -> &'static str {
    use std::collections::HashMap;
    use std::sync::Mutex;
    static TABLE: Mutex<Option<HashMap<String, &'static str>>> = Mutex::new(None);
    let mut g = TABLE.lock().unwrap();
    let t = g.get_or_insert_with(HashMap::new);
    if let Some(v) = t.get(s) {
        return v;
    }
    let leaked: &'static str = Box::leak(s.to_string().into_boxed_str());
    t.insert(s.to_string(), leaked);
    leaked
}

fn strategy(kind: &'static str, max_tape: usize) -> impl Strategy<Value = RtCase> {
    proptest::collection::vec(any::<u8>(), 0..max_tape).prop_map(move |tape| RtCase {
        kind: kind.to_string(),
        flags: 0,
        ew: 1,
        sw: 1,
        tape,
    })
}

/// the libFuzzer input format of target `roundtrip`: byte 0 selects the kind of value, the rest is the choice tape
pub fn fuzz_case(data: &[u8]) -> Option<RtCase> {
    const KINDS: [&str; 8] = ["pdu", "pdu", "pdu", "user_op", "tlv", "fs_response", "report", "header"];
    if data.is_empty() {
        return None;
    }
    Some(RtCase {
        kind: KINDS[data[0] as usize % KINDS.len()].to_string(),
        flags: 0,
        ew: 1,
        sw: 1,
        tape: data[1..].to_vec(),
    })
}

pub fn run(ctx: &mut Ctx) {
    ctx.rule = "values built from a generated choice tape inside the wire format's limits (strings/TLV bodies <= 255, segment metadata <= 63, \
equal-width entity ids, sizes/offsets < 2^32 under the small flag, fault location iff error condition [Finished also without, as the implementation emits it], \
ACK only (EoF,Other)|(Finished,Finished), data field + CRC <= 65535). Discrete header fields (2^6 flag combinations x 4x4 id widths) are enumerated exhaustively, \
each with several tapes; every PDU directive, both file-data forms, every metadata TLV, every user operation (types with private fields via a layout writer + decode), \
status reports, every filestore action x status. Non-trivial = the encoding differs from the encoding of the minimal (all-zero tape) value of the same kind; distinct by encoding."
        .into();
    ctx.assumptions = vec![
        "PDU::encoded_len() is compared with encode().len() modulo the 2 CRC octets (the trait does not say whether they are included)".into(),
    ];
    let part = RtPart;
    ctx.run_known_replays(&part);
    // exhaustive discrete header fields
    let tapes_per = ctx.tier.pick(12u64, 100);
    let seed = ctx.seed_for("pdu-flags", 0);
    ctx.section = "pdu-flags-exhaustive".into();
    ctx.drive_indexed(&part, 64 * 16 * tapes_per, false, |i| {
        let k = i / tapes_per;
        let flags = (k % 64) as u8;
        let ew = wire::WIDTHS[((k / 64) % 4) as usize];
        let sw = wire::WIDTHS[((k / 256) % 4) as usize];
        let mut rng = Prng::new(mix(seed, i));
        let n = rng.below(120) as usize;
        RtCase {
            kind: "pdu-flags".into(),
            flags,
            ew,
            sw,
            tape: rng.bytes(n),
        }
    });
    let scale = ctx.tier.pick(1u64, 12);
    for (kind, n, tape) in [
        ("pdu", 120_000u64, 400usize),
        ("user_op", 60_000, 300),
        ("tlv", 20_000, 300),
        ("fs_request", 8_000, 200),
        ("fs_response", 12_000, 300),
        ("report", 6_000, 40),
        ("variable_id", 2_000, 16),
        ("header", 8_000, 80),
    ] {
        ctx.section = kind.to_string();
        ctx.drive_proptest(&part, strategy(kind, tape), n * scale, 3000);
    }
    ctx.section.clear();
    if ctx.tier == Tier::Thorough {
        let c = crate::fuzzrun::Campaign { target: "roundtrip", runs: 1_000_000, max_len: 500 };
        crate::fuzzrun::campaign_into_ctx(ctx, &c, |bytes| match fuzz_case(bytes) {
            Some(case) => (RtPart.run(&case).fail, serde_json::to_value(&case).unwrap(), "roundtrip"),
            None => (None, serde_json::Value::Null, "roundtrip"),
        });
    }
}
