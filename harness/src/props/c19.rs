//! C19 — suspend really suspends; resume picks up and completes.
//!
//! Engine E2. A user Suspend is issued at the sender or the receiver when the link sees datagram k
//! (every k of the baseline: exhaustive), followed after a suspension of 0 .. 100 timer periods by
//! Resume. Family "silence": the suspended entity has short timers, the peer very long ones (so the
//! peer does not legitimately give up meanwhile). Family "completion": normal timers, short
//! suspensions, plus one lost datagram at every ordinal (acknowledged mode).
//! Oracle: (a) between (Suspended indication + pipeline slack) and the Resume request the suspended
//! entity emits no Metadata / FileData / EOF / NAK / Finished for that transaction and declares no
//! fault; (b) after Resume the transfer completes like an unsuspended one (C02's success oracle);
//! (c) a limit fault at the suspended entity needs at least L * min(T) of un-suspended time.

use super::c02::check_transfer_success;
use super::simutil::*;
use crate::common::*;
use crate::sim::*;
use cfdp_core::daemon::Indication;
use cfdp_core::pdu::Condition;
use serde::{Deserialize, Serialize};

#[derive(Clone, Debug, Serialize, Deserialize)]
pub struct C19Case {
    pub sc: Scenario,
    /// the transfer is expected to complete after the resume
    pub expect_success: bool,
    /// the peer of the suspended entity has very long timers (family "silence"): it may legitimately still be
    /// waiting at the end of the run (e.g. for an ACK of Finished that unacknowledged mode never sends)
    #[serde(default)]
    pub peer_long_timers: bool,
}

fn fail(tr: &Trace, key: &str, msg: String) -> Fail {
    Fail {
        key: key.to_string(),
        msg: format!("{msg}\n{}", tr.render(220)),
    }
}

pub fn check_suspend(case: &C19Case, tr: &Trace) -> Result<&'static str, Fail> {
    let sc = &case.sc;
    let p = &sc.puts[0];
    let id = sc.put_id(0);
    let Some((t_cmd, who, _)) = tr.cmds.iter().find(|c| c.2.starts_with("Suspend")).cloned() else {
        return Ok("no-suspend");
    };
    let t_resume = tr.cmds.iter().find(|c| c.2.starts_with("Resume") && c.1 == who).map(|c| c.0);
    // when did the entity say it was suspended?
    let t_susp = tr.inds_of(who, id).iter().find_map(|r| match &r.ind {
        Indication::Suspended(_) => Some(r.t),
        _ => None,
    });
    let Some(t_susp) = t_susp else {
        // the suspend request found no live transaction
        if case.expect_success {
            check_transfer_success(sc, tr, 0)?;
        }
        return Ok("suspend-not-processed");
    };
    let peer = if who == p.from { p.to } else { p.from };
    // up to two PDUs handed over before the suspension may still be in the transport pipeline
    let lo = t_susp + 2 * sc.tau_ms + 2;
    // the suspension belongs to the transaction that was suspended: when that one ends (e.g. on a checksum failure found
    // while suspended) a straggler may start a second receive transaction for the same id, which is not suspended
    let t_term_after = tr
        .inds_of(who, id)
        .iter()
        .filter_map(|r| match &r.ind {
            Indication::Report(rep) if rep.state == cfdp_core::transaction::TransactionState::Terminated && r.t >= t_susp => Some(r.t),
            _ => None,
        })
        .min();
    let hi = t_resume.unwrap_or(tr.end_ms).min(t_term_after.unwrap_or(u64::MAX));
    let owed_before = tr.terminated_at(who, id).map(|t| t > t_susp).unwrap_or(true);
    for d in tr.emitted(who, peer) {
        if d.t > lo && d.t < hi {
            let k = kind_of(&d.pdu);
            if matches!(k, Kind::Metadata | Kind::FileData | Kind::Eof | Kind::Nak | Kind::Finished) {
                return Err(fail(
                    tr,
                    &format!("emits-while-suspended:{}:{k:?}", if who == p.from { "sender" } else { "receiver" }),
                    format!(
                        "entity {who} reported Suspended at {t_susp} ms (request at {t_cmd} ms, resume at {t_resume:?}) but put a {k:?} PDU on the link at {} ms",
                        d.t
                    ),
                ));
            }
        }
    }
    for r in tr.inds_of(who, id) {
        if r.t > t_susp && r.t < hi {
            if let Indication::Fault(f) | Indication::Abandon(f) = &r.ind {
                if matches!(f.condition, Condition::InactivityDetected | Condition::PositiveLimitReached | Condition::NakLimitReached) {
                    return Err(fail(
                        tr,
                        &format!("timer-fault-while-suspended:{}:{:?}", if who == p.from { "sender" } else { "receiver" }, f.condition),
                        format!("entity {who} suspended at {t_susp} ms declared {:?} at {} ms, before the resume ({t_resume:?})", f.condition, r.t),
                    ));
                }
            }
        }
    }
    // (c) a limit fault needs L * min(T) of un-suspended time since the transaction appeared at `who`
    let c = &sc.entities[who].cfg;
    let need = c.max_count as u64 * (c.ti.min(c.ta).min(c.tn) as u64) * 1000;
    let t_first = tr.inds_of(who, id).first().map(|r| r.t).unwrap_or(0);
    for r in tr.inds_of(who, id) {
        if let Indication::Fault(f) = &r.ind {
            if matches!(f.condition, Condition::InactivityDetected | Condition::PositiveLimitReached | Condition::NakLimitReached) && r.t >= hi {
                let unsuspended = (r.t - t_first).saturating_sub(hi.saturating_sub(t_susp));
                if unsuspended + 50 < need {
                    return Err(fail(
                        tr,
                        "limit-fault-counts-suspended-time",
                        format!(
                            "{:?} declared at {} ms: only {unsuspended} ms of un-suspended time since the transaction started at {t_first} ms (suspended {t_susp}..{hi}), limit needs {need} ms",
                            f.condition, r.t
                        ),
                    ));
                }
            }
        }
    }
    // (b) completion
    if case.expect_success && t_resume.is_some() {
        if let Err(f) = check_transfer_success(sc, tr, 0) {
            let peer_still_waiting = case.peer_long_timers
                && ((f.key == "receiver-never-ends" && peer == p.to) || (f.key == "sender-never-ends" && peer == p.from));
            if peer_still_waiting {
                return Ok(if owed_before { "suspended-while-active" } else { "suspended-after-end" });
            }
            return Err(Fail {
                key: format!("after-resume:{}:{}", if who == p.from { "sender" } else { "receiver" }, f.key),
                msg: format!("suspended at {t_susp} ms, resumed at {t_resume:?}: {}", f.msg),
            });
        }
    }
    Ok(if owed_before { "suspended-while-active" } else { "suspended-after-end" })
}

pub struct C19Part;
impl Part for C19Part {
    type Case = C19Case;
    fn name(&self) -> &'static str {
        "suspend"
    }
    fn run(&self, case: &C19Case) -> CaseOut {
        let sc = &case.sc;
        let tr = run_scenario(sc);
        let mut out = CaseOut::ok();
        out = out
            .class_if(sc.puts[0].unack, "unack")
            .class_if(!sc.puts[0].unack, "ack")
            .class_if(sc.actions.iter().any(|a| a.entity == 0), "at-sender")
            .class_if(sc.actions.iter().any(|a| a.entity == 1), "at-receiver")
            .class_if(!sc.faults.is_empty(), "with-loss")
            .class_if(case.expect_success, "completion-expected");
        if let Some(f) = common_failures(sc, &tr) {
            return out.failed(f.key, f.msg);
        }
        match check_suspend(case, &tr) {
            Ok(label) => {
                if label == "suspended-while-active" {
                    out = out.nt(hash_json(sc));
                }
                out.class(label)
            }
            Err(f) => out.failed(f.key, f.msg),
        }
    }
}

fn add_suspend_resume(sc: &mut Scenario, who: usize, trigger: Trigger, suspension_ms: u64) {
    sc.actions.push(Action { trigger: trigger.clone(), entity: who, kind: ActionKind::Suspend { put: 0 } });
    // the resume is scheduled relative to the Suspended indication, so the suspension has the intended length
    sc.actions.push(Action {
        trigger: Trigger::OnIndication { entity: who, put: 0, kind: "suspended".into(), delay_ms: suspension_ms },
        entity: who,
        kind: ActionKind::Resume { put: 0 },
    });
}

pub fn run(ctx: &mut Ctx) {
    ctx.rule = "family 'silence': both modes x closure x 2 NAK procedures x sizes {0,33,100,200}; the entity to be suspended has timers of 1 s and limit 2, its peer 400 s and limit 4; Suspend at the sender \
or the receiver when the link sees datagram k of either direction, every k of the baseline (exhaustive), Resume 500 ms, 1, 3, 10 or 100 s after the Suspended indication; each also with a second Suspend request during the suspension (one Resume must still end it); with the receiver suspended in acknowledged mode additionally a Prompt(NAK) from the sender's user in the middle of the suspension. family 'completion': \
acknowledged and unacknowledged mode, sizes {33,100,200}, timers 3 s limit 4 on both sides, suspension 0, 500, 3000 or 6000 ms, and in acknowledged mode additionally one lost datagram at every ordinal of either direction. \
family 'sampled': the general scenario generator (both modes, every configuration, up to 3 faults) with a suspension of 0..8 s at either entity at any datagram, judged for silence and timer faults only. \
Non-trivial = the suspend was processed while the transaction was still active at that entity; distinct by scenario."
        .into();
    ctx.assumptions = vec![
        "ACK and keep-alive PDUs during suspension are tolerated (not in the statement's list)".into(),
        "two PDUs already handed to the transport before the suspension may still reach the link (window starts 2*tau + 2 ms after the Suspended indication)".into(),
        "in the 'silence' family the peer's timers are long so that it cannot legitimately give up during the suspension".into(),
    ];
    let part = C19Part;
    ctx.run_known_replays(&part);
    let mut rng = Prng::new(ctx.seed);
    let mut cases = vec![];
    // ---- silence
    for unack in [false, true] {
        for closure in [false, true] {
            for nak in [NakSpec { immediate: false, delay_ms: 0 }, NakSpec { immediate: true, delay_ms: 0 }] {
                if unack && nak.immediate {
                    continue;
                }
                for size in [0u32, 33, 100, 200] {
                    for who in [0usize, 1] {
                        let short = CfgSpec { seg: 32, max_count: 2, ti: 1, ta: 1, tn: 1, crc: false, closure, null_checksum: false, nak: nak.clone(), handlers: vec![] };
                        let long = CfgSpec { max_count: 4, ti: 400, ta: 400, tn: 400, ..short.clone() };
                        let (c0, c1) = if who == 0 { (short.clone(), long.clone()) } else { (long.clone(), short.clone()) };
                        let mut base = Scenario::two_entities(c0, c1);
                        base.seed = rng.next();
                        base.puts.push(simple_put(size, ContentClass::Random, rng.next(), unack));
                        base.horizon_ms = 160_000;
                        let (a, b) = baseline_counts(&base);
                        let lengths: Vec<u64> = ctx.tier.pick(vec![500, 3_000, 100_000], vec![500, 1_000, 3_000, 10_000, 100_000]);
                        let mut triggers = vec![Trigger::AtMs(0)];
                        for k in 0..a {
                            for d in [0u64, 1] {
                                triggers.push(Trigger::OnOrdinal { from: 0, to: 1, ordinal: k, delay_ms: d });
                            }
                        }
                        for k in 0..b {
                            triggers.push(Trigger::OnOrdinal { from: 1, to: 0, ordinal: k, delay_ms: 0 });
                        }
                        for tg in triggers {
                            for len in &lengths {
                                let mut s = base.clone();
                                add_suspend_resume(&mut s, who, tg.clone(), *len);
                                // unacknowledged transfers cannot recover what a long-suspended receiver's peer... nothing is lost here: success expected
                                cases.push(C19Case { sc: s.clone(), expect_success: true, peer_long_timers: true });
                                // the user asks twice: a second Suspend while already suspended changes nothing, one Resume ends it
                                if *len >= 500 {
                                    let mut s2 = base.clone();
                                    add_suspend_resume(&mut s2, who, tg.clone(), *len);
                                    s2.actions.push(Action {
                                        trigger: Trigger::OnIndication { entity: who, put: 0, kind: "suspended".into(), delay_ms: len / 4 },
                                        entity: who,
                                        kind: ActionKind::Suspend { put: 0 },
                                    });
                                    cases.push(C19Case { sc: s2, expect_success: true, peer_long_timers: true });
                                }
                                // the peer's user prompts the suspended receiver for a NAK in the middle of the suspension: the answer
                                // has to wait for the resume
                                if who == 1 && !unack && *len >= 500 {
                                    s.actions.push(Action {
                                        trigger: Trigger::OnIndication { entity: 1, put: 0, kind: "suspended".into(), delay_ms: len / 2 },
                                        entity: 0,
                                        kind: ActionKind::PromptNak { put: 0 },
                                    });
                                    cases.push(C19Case { sc: s, expect_success: true, peer_long_timers: true });
                                }
                            }
                        }
                    }
                }
            }
        }
    }
    ctx.section = "silence-every-ordinal".into();
    ctx.drive_list(&part, cases, true);
    // ---- completion with one loss
    let mut cases = vec![];
    for unack in [false, true] {
        for nak in [NakSpec { immediate: false, delay_ms: 0 }, NakSpec { immediate: true, delay_ms: 50 }] {
            if unack && nak.immediate {
                continue;
            }
          for size in [33u32, 100, 200] {
            let cfg = CfgSpec { seg: 32, max_count: 4, ti: 3, ta: 3, tn: 3, crc: size == 33, closure: unack, null_checksum: false, nak: nak.clone(), handlers: vec![] };
            let mut base = Scenario::two_entities(cfg.clone(), cfg.clone());
            base.seed = rng.next();
            base.puts.push(simple_put(size, ContentClass::Random, rng.next(), unack));
            base.horizon_ms = 200_000;
            let (a, b) = baseline_counts(&base);
            for who in [0usize, 1] {
                let mut triggers = vec![];
                for k in 0..a {
                    triggers.push(Trigger::OnOrdinal { from: 0, to: 1, ordinal: k, delay_ms: 0 });
                }
                for k in 0..b {
                    triggers.push(Trigger::OnOrdinal { from: 1, to: 0, ordinal: k, delay_ms: 0 });
                }
                for tg in &triggers {
                    for len in [0u64, 500, 3000, 6000] {
                        let mut s = base.clone();
                        add_suspend_resume(&mut s, who, tg.clone(), len);
                        cases.push(C19Case { sc: s.clone(), expect_success: true, peer_long_timers: false });
                        if !unack {
                            let step = ctx.tier.pick(2u32, 1);
                            for ord in (0..a + 1).step_by(step as usize) {
                                let mut s2 = s.clone();
                                s2.faults.push(Fault { from: 0, to: 1, ordinal: ord, kind: FaultKind::Drop });
                                cases.push(C19Case { sc: s2, expect_success: true, peer_long_timers: false });
                            }
                            for ord in 0..b + 1 {
                                let mut s2 = s.clone();
                                s2.faults.push(Fault { from: 1, to: 0, ordinal: ord, kind: FaultKind::Drop });
                                cases.push(C19Case { sc: s2, expect_success: true, peer_long_timers: false });
                            }
                        }
                    }
                }
            }
          }
        }
    }
    ctx.section = "completion-with-one-loss".into();
    ctx.drive_list(&part, cases, ctx.tier == Tier::Thorough);
    // sampled: any configuration and fault script of the general generator, a suspension of 0..8 s at either entity at any
    // datagram; only the clauses that hold whatever the link does are judged here (silence, no timer fault while suspended,
    // no limit fault on suspended time) - completion under loss is the subject of the family above
    use proptest::prelude::*;
    let strat = (scenario_strategy(Modes::Both, 3), any::<bool>(), any::<bool>(), 0u32..14, 0u64..3, prop_oneof![0u64..50, 0u64..8000], proptest::option::of((any::<bool>(), 0u64..8000))).prop_map(
        |(mut sc, at_recv, dir, k, d, len, prompt)| {
            let who = if at_recv { 1 } else { 0 };
            let trigger = if dir {
                Trigger::OnOrdinal { from: 0, to: 1, ordinal: k, delay_ms: d }
            } else {
                Trigger::OnOrdinal { from: 1, to: 0, ordinal: k % 5, delay_ms: d }
            };
            add_suspend_resume(&mut sc, who, trigger, len);
            if let Some((nak, after)) = prompt {
                sc.actions.push(Action {
                    trigger: Trigger::OnIndication { entity: who, put: 0, kind: "suspended".into(), delay_ms: after },
                    entity: 0,
                    kind: if nak { ActionKind::PromptNak { put: 0 } } else { ActionKind::PromptKeepAlive { put: 0 } },
                });
            }
            sc.horizon_ms += 10_000;
            C19Case { sc, expect_success: false, peer_long_timers: false }
        },
    );
    ctx.section = "sampled-any-configuration".into();
    let n = ctx.tier.pick(20_000u64, 1_500_000);
    ctx.drive_proptest(&part, strat, n, 200);
    ctx.section.clear();
}
