//! C16 — a datagram is decoded from its own bytes only.
//!
//! Engine E5: a real `UdpTransport` on the loopback interface. Per case a fresh transport receives
//! datagram A (valid, long) and then datagram B (a truncation of a valid datagram, shorter than A,
//! or a short valid one). Oracle (differential): what `UdpTransport::receive()` returns for each
//! datagram is what `PDU::decode` returns on that datagram's own bytes (Ok with an equal PDU, or Err).

use crate::common::*;
use crate::wire;
use cfdp_core::pdu::{PDUEncode, PDU};
use cfdp_daemon::transport::{PDUTransport, UdpTransport};
use proptest::prelude::*;
use serde::{Deserialize, Serialize};
use std::collections::HashMap;
use std::sync::OnceLock;
use std::time::Duration;

#[derive(Clone, Debug, Serialize, Deserialize)]
pub struct UdpCase {
    /// corpus entry sent first
    pub a: String,
    /// corpus entry whose prefix is sent second
    pub b: String,
    /// number of bytes of b's encoding that are sent (== its length: the whole valid datagram)
    pub b_len: usize,
    /// further datagrams after B: (entry, length), to exercise longer histories
    pub more: Vec<(String, usize)>,
}

fn corpus() -> &'static Vec<(String, PDU, Vec<u8>)> {
    static C: OnceLock<Vec<(String, PDU, Vec<u8>)>> = OnceLock::new();
    C.get_or_init(|| {
        wire::corpus_pdus()
            .into_iter()
            .map(|(n, p)| {
                let e = p.clone().encode();
                (n, p, e)
            })
            .collect()
    })
}
fn enc_of(name: &str) -> Option<&'static Vec<u8>> {
    corpus().iter().find(|e| e.0 == name).map(|e| &e.2)
}

thread_local! {
    static RT: tokio::runtime::Runtime = tokio::runtime::Builder::new_current_thread()
        .enable_all()
        .build()
        .expect("runtime");
}

enum Outcome {
    Ok,
    Fail(String, String),
    Inconclusive(String),
}

async fn exchange(datagrams: &[Vec<u8>]) -> Outcome {
    let sock = match tokio::net::UdpSocket::bind("127.0.0.1:0").await {
        Ok(s) => s,
        Err(e) => return Outcome::Inconclusive(format!("bind: {e}")),
    };
    let addr = match sock.local_addr() {
        Ok(a) => a,
        Err(e) => return Outcome::Inconclusive(format!("local_addr: {e}")),
    };
    let mut transport = match UdpTransport::try_from((sock, HashMap::new())) {
        Ok(t) => t,
        Err(e) => return Outcome::Inconclusive(format!("transport: {e}")),
    };
    let sender = match tokio::net::UdpSocket::bind("127.0.0.1:0").await {
        Ok(s) => s,
        Err(e) => return Outcome::Inconclusive(format!("bind sender: {e}")),
    };
    for (i, d) in datagrams.iter().enumerate() {
        if let Err(e) = sender.send_to(d, addr).await {
            return Outcome::Inconclusive(format!("send_to: {e}"));
        }
        let got = match tokio::time::timeout(Duration::from_secs(5), transport.receive()).await {
            Ok(r) => r,
            Err(_) => return Outcome::Inconclusive("loopback datagram not received within 5 s".into()),
        };
        let want = PDU::decode(&mut d.as_slice());
        match (got, want) {
            (Ok(g), Ok(w)) if g == w => {}
            (Err(_), Err(_)) => {}
            (Ok(g), Ok(w)) => {
                return Outcome::Fail(
                    "differs-from-own-bytes".into(),
                    format!("datagram #{i} ({} bytes): transport returned {g:?}, its own bytes decode to {w:?}", d.len()),
                )
            }
            (Ok(g), Err(e)) => {
                let key = if i > 0 && d.len() < datagrams[i - 1].len() {
                    "truncated-datagram-completed-with-stale-bytes"
                } else {
                    "accepted-undecodable-datagram"
                };
                return Outcome::Fail(
                    key.into(),
                    format!(
                        "datagram #{i} ({} bytes, own bytes do not decode: {e}) was accepted as {g:?}; previous datagram had {} bytes",
                        d.len(),
                        if i > 0 { datagrams[i - 1].len() } else { 0 }
                    ),
                );
            }
            (Err(e), Ok(w)) => {
                return Outcome::Fail(
                    "valid-datagram-rejected".into(),
                    format!("datagram #{i} ({} bytes) decodes to {w:?} but the transport returned error {e}", d.len()),
                )
            }
        }
    }
    Outcome::Ok
}

pub struct UdpPart;
impl Part for UdpPart {
    type Case = UdpCase;
    fn name(&self) -> &'static str {
        "udp"
    }
    fn run(&self, case: &UdpCase) -> CaseOut {
        let mut out = CaseOut::ok();
        let (a, b) = match (enc_of(&case.a), enc_of(&case.b)) {
            (Some(a), Some(b)) => (a, b),
            _ => return out.failed("bad-entry", format!("unknown corpus entry in {case:?}")),
        };
        let b_len = std::cmp::min(case.b_len, b.len());
        let mut datagrams = vec![a.clone(), b[..b_len].to_vec()];
        for (n, l) in &case.more {
            if let Some(e) = enc_of(n) {
                datagrams.push(e[..std::cmp::min(*l, e.len())].to_vec());
            }
        }
        let strict_trunc = b_len < b.len() && b_len < a.len();
        if strict_trunc {
            out = out.nt(hash_json(case));
        }
        out = out
            .class_if(strict_trunc, "truncated-after-longer")
            .class_if(b_len == b.len(), "valid-second-datagram")
            .class_if(b_len == 0, "empty-datagram")
            .class_if(case.b.contains("+crc"), "crc-on");
        let r = guarded(|| RT.with(|rt| rt.block_on(exchange(&datagrams))));
        match r {
            Err(p) => out.failed(panic_site(&p), format!("panic in the transport: {p}; case {case:?}")),
            Ok(Outcome::Ok) => out,
            Ok(Outcome::Fail(k, m)) => out.failed(k, format!("{m}; case {case:?}")),
            Ok(Outcome::Inconclusive(m)) => {
                eprintln!("INCONCLUSIVE (C16): {m}");
                cleanup_scratch();
                std::process::exit(2);
            }
        }
    }
}

fn random_strategy() -> impl Strategy<Value = UdpCase> {
    let n = corpus().len();
    (0..n, 0..n, any::<u16>(), proptest::collection::vec((0..n, any::<u16>()), 0..4)).prop_map(|(ai, bi, frac, more)| {
        let c = corpus();
        let blen = c[bi].2.len();
        UdpCase {
            a: c[ai].0.clone(),
            b: c[bi].0.clone(),
            b_len: ((blen + 1) * frac as usize) >> 16,
            more: more
                .into_iter()
                .map(|(i, f)| (c[i].0.clone(), ((c[i].2.len() + 1) * f as usize) >> 16))
                .collect(),
        }
    })
}

pub fn run(ctx: &mut Ctx) {
    ctx.rule = "pairs (A, B) over a corpus of every PDU type x CRC on/off x Small/Large x id widths: A = the longest corpus datagrams (and the same-type \
datagram), B = every truncation length 0..len of a corpus datagram (len itself = the valid datagram), received by a fresh UdpTransport on 127.0.0.1; plus proptest \
sequences of 2-5 datagrams of random entries and lengths. Non-trivial = B is a strict truncation and shorter than A; distinct by the whole case."
        .into();
    ctx.assumptions = vec![
        "loopback UDP delivers datagrams in order and without loss; a 5 s receive timeout is reported as inconclusive (exit 2)".into(),
    ];
    let part = UdpPart;
    ctx.run_known_replays(&part);
    let c = corpus();
    // A candidates: the two longest entries (one without, one with CRC) and, per B, B itself
    let mut longest: Vec<&(String, PDU, Vec<u8>)> = c.iter().collect();
    longest.sort_by_key(|e| std::cmp::Reverse(e.2.len()));
    let a_crc = longest.iter().find(|e| e.0.contains("+crc")).unwrap().0.clone();
    let a_plain = longest.iter().find(|e| !e.0.contains("+crc")).unwrap().0.clone();
    let mut cases = vec![];
    let stride = 1usize;
    for (k, (name, _, enc)) in c.iter().enumerate() {
        if k % stride != 0 {
            continue;
        }
        for len in 0..=enc.len() {
            for a in [&a_crc, &a_plain, name] {
                // B after itself only makes sense for strict truncations
                if a == name && len == enc.len() {
                    continue;
                }
                cases.push(UdpCase {
                    a: a.clone(),
                    b: name.clone(),
                    b_len: len,
                    more: vec![],
                });
            }
        }
    }
    ctx.section = "every-truncation".into();
    ctx.drive_list(&part, cases, stride == 1);
    ctx.section = "random-sequences".into();
    let n = ctx.tier.pick(30_000u64, 1_500_000);
    ctx.drive_proptest(&part, random_strategy(), n, 300);
    ctx.section.clear();
}
