//! C01 — a file reported as delivered is byte-identical to the source file.
//!
//! Engine E2. Generated: configuration x adversarial content (zero runs, checksum-neutral word
//! pairs, zero tail) x size x fault script (drop, duplicate, delay, bit corruption with CRC on) x
//! link timing x scheduler seed, both transmission modes. Oracle (identity): for every Finished
//! indication (NoError, Complete, Retained) seen by the receiving or the sending user, the file
//! under the destination name — read when the indication is observed and at the end of the run —
//! has the length and bytes of the source. Nothing is asserted when no success is claimed.

use super::simutil::*;
use crate::common::*;
use crate::sim::*;
use proptest::prelude::*;
use serde::{Deserialize, Serialize};

#[derive(Clone, Debug, Serialize, Deserialize)]
pub struct C01Case {
    pub sc: Scenario,
}

/// which data bytes of the file never reached the receiver (None if every byte was delivered at least once)
pub fn undelivered_ranges(sc: &Scenario, tr: &Trace, put: usize) -> Vec<(u64, u64)> {
    let p = &sc.puts[put];
    let size = p.file.as_ref().map(|f| f.size as u64).unwrap_or(0);
    let mut held = vec![false; size as usize];
    for (_, to, di) in &tr.deliveries {
        if *to != p.to {
            continue;
        }
        let d = &tr.dgrams[*di];
        if d.corrupted {
            continue;
        }
        if let Some(pdu) = &d.pdu {
            if pdu_tid(pdu) != sc.put_id(put) {
                continue;
            }
            if let cfdp_core::pdu::PDUPayload::FileData(cfdp_core::pdu::FileDataPDU::Unsegmented(fd)) = &pdu.payload {
                for i in 0..fd.file_data.len() as u64 {
                    let o = fd.offset + i;
                    if o < size {
                        held[o as usize] = true;
                    }
                }
            }
        }
    }
    let mut out = vec![];
    let mut i = 0;
    while i < held.len() {
        if !held[i] {
            let s = i;
            while i < held.len() && !held[i] {
                i += 1;
            }
            out.push((s as u64, i as u64));
        } else {
            i += 1;
        }
    }
    out
}

pub fn metadata_delivered(sc: &Scenario, tr: &Trace, put: usize) -> bool {
    let p = &sc.puts[put];
    tr.deliveries.iter().any(|(_, to, di)| {
        *to == p.to && !tr.dgrams[*di].corrupted && kind_of(&tr.dgrams[*di].pdu) == Kind::Metadata && tr.dgrams[*di].pdu.as_ref().map(|x| pdu_tid(x) == sc.put_id(put)).unwrap_or(false)
    })
}

pub fn check_delivered_equals_source(sc: &Scenario, tr: &Trace, put: usize) -> Result<bool, Fail> {
    let p = &sc.puts[put];
    let Some(f) = &p.file else { return Ok(false) };
    let src = f.bytes();
    let id = sc.put_id(put);
    let mut claimed = false;
    for (who, entity) in [("receiver", p.to), ("sender", p.from)] {
        if !sc.entities[entity].present {
            continue;
        }
        for (idx, t, fin) in tr.finished_inds_idx(entity, id) {
            if !is_success(fin) {
                continue;
            }
            claimed = true;
            // the snapshot taken when this very indication was observed
            let snap = tr.snap_for(idx);
            let content = snap.and_then(|s| s.content.clone());
            let verdict = match &content {
                None => Some(("success-claimed-no-file", "the destination does not exist".to_string())),
                Some(c) if *c != src => {
                    let missing = undelivered_ranges(sc, tr, put);
                    let key = if c.len() < src.len() {
                        "success-claimed-truncated-file"
                    } else if !missing.is_empty() {
                        "success-claimed-holed-file"
                    } else {
                        "success-claimed-wrong-content"
                    };
                    Some((
                        key,
                        format!(
                            "the destination has {} bytes, the source {}; first difference at {:?}; byte ranges never delivered: {:?}",
                            c.len(),
                            src.len(),
                            c.iter().zip(src.iter()).position(|(a, b)| a != b),
                            missing
                        ),
                    ))
                }
                _ => None,
            };
            if let Some((key, detail)) = verdict {
                let mode = if p.unack { "unack" } else { "ack" };
                return Err(Fail {
                    key: format!("{key}:{who}:{mode}"),
                    msg: format!(
                        "the {who} reported (NoError, Complete, Retained) at {t} ms but {detail}\n{}",
                        tr.render(200)
                    ),
                });
            }
        }
    }
    // the statement speaks about the moment of the report. The end-of-run comparison is only sound while the
    // reporting transaction is the only one that ever used this id at the receiver: replayed PDUs arriving after
    // its end make the daemon start a NEW receive transaction (C11's subject), which may legitimately rewrite the
    // destination name as its own, incomplete, delivery.
    let instances = tr
        .inds_of(p.to, id)
        .iter()
        .filter(|r| matches!(&r.ind, cfdp_core::daemon::Indication::Report(rep) if rep.state == cfdp_core::transaction::TransactionState::Active))
        .count();
    if claimed && instances <= 1 {
        // and it must still be so at the end of the run
        match tr.file_at(p.to, &p.dst_name) {
            Some(c) if c == src => {}
            other => {
                return Err(Fail {
                    key: format!("delivered-file-changed-later:{}", if p.unack { "unack" } else { "ack" }),
                    msg: format!(
                        "a successful delivery was reported, but at the end of the run the destination {} \n{}",
                        match other {
                            None => "does not exist".to_string(),
                            Some(c) => format!("has {} bytes and differs from the source ({} bytes)", c.len(), src.len()),
                        },
                        tr.render(200)
                    ),
                })
            }
        }
    }
    Ok(claimed)
}

pub struct C01Part;
impl Part for C01Part {
    type Case = C01Case;
    fn name(&self) -> &'static str {
        "identity"
    }
    fn run(&self, case: &C01Case) -> CaseOut {
        let sc = &case.sc;
        let tr = run_scenario(sc);
        let mut out = CaseOut::ok();
        let p = &sc.puts[0];
        let f = p.file.as_ref().unwrap();
        let eff = effective_faults(sc, &tr);
        let segs = (f.size as u64).div_ceil(sc.entities[0].cfg.seg as u64);
        let data_lost = !undelivered_ranges(sc, &tr, 0).is_empty();
        let weak_checksum = sc.entities[0].cfg.null_checksum || matches!(f.class, ContentClass::Neutral | ContentClass::Zero | ContentClass::ZeroRuns { .. } | ContentClass::ZeroTail { .. });
        // puppet family: data beyond the announced size reached the receiver
        let oversize = !sc.entities[0].present
            && tr.deliveries.iter().any(|(_, to, di)| {
                *to == p.to
                    && matches!(tr.dgrams[*di].pdu.as_ref().map(|x| &x.payload),
                        Some(cfdp_core::pdu::PDUPayload::FileData(cfdp_core::pdu::FileDataPDU::Unsegmented(fd))) if fd.offset + fd.file_data.len() as u64 > f.size as u64)
            });
        if (eff > 0 && segs >= 2) || (weak_checksum && data_lost) || oversize {
            out = out.nt(hash_json(sc));
        }
        let rewritten = tr.cmds.iter().any(|c| c.2.starts_with("RewriteSource"));
        if rewritten {
            out = out.nt(hash_json(sc));
        }
        out = out.class_if(oversize, "data-beyond-announced-size").class_if(rewritten, "source-rewritten");
        out = out
            .class_if(p.unack, "unack")
            .class_if(!p.unack, "ack")
            .class_if(eff > 0, "fault-hit")
            .class_if(data_lost, "data-bytes-never-delivered")
            .class_if(weak_checksum && data_lost, "weak-checksum+data-lost")
            .class_if(tr.dgrams.iter().any(|d| d.corrupted), "corrupted-datagram")
            .class_if(sc.entities[0].cfg.null_checksum, "null-checksum")
            .class_if(sc.entities[0].cfg.crc, "crc")
            .class_if(!metadata_delivered(sc, &tr, 0), "metadata-never-delivered");
        if let Some(f) = common_failures(sc, &tr) {
            return out.failed(f.key, f.msg);
        }
        match check_delivered_equals_source(sc, &tr, 0) {
            Ok(claimed) => out.class_if(claimed, "success-claimed").class_if(!claimed, "no-success-claimed"),
            Err(f) => out.failed(f.key, f.msg),
        }
    }
}

/// E3: a puppet sender whose data does not stop at the announced file size: Metadata and EOF announce N bytes (and the checksum of
/// those N bytes), but a File Data PDU for [N, N+K) turns up as well - before the EOF, between the EOF and the rest of the
/// in-range data, or last. Whatever the receiver makes of it, a delivery it reports complete has exactly the announced bytes.
pub fn puppet_oversize(seed: u64) -> C01Case {
    use crate::puppet::{modular, Pup};
    let mut rng = Prng::new(seed);
    let seg = *rng.pick(&[16u16, 32]);
    let null = rng.chance(1, 2);
    let cfg = CfgSpec {
        seg,
        max_count: 2,
        ti: 20,
        ta: 2,
        tn: 2,
        crc: rng.chance(1, 4),
        closure: rng.chance(1, 2),
        null_checksum: null,
        nak: NakSpec { immediate: rng.chance(1, 2), delay_ms: *rng.pick(&[0u64, 0, 100]) },
        handlers: vec![],
    };
    let mut sc = Scenario::two_entities(cfg.clone(), cfg);
    sc.entities[0].present = false;
    sc.seed = rng.next();
    let nsegs = 1 + rng.below(4);
    let size = nsegs * seg as u64;
    let unack = rng.chance(1, 3);
    sc.puts.push(simple_put(size as u32, ContentClass::Random, rng.next(), unack));
    let content = sc.puts[0].file.as_ref().unwrap().bytes();
    let pup = Pup::for_put(&sc, 0);
    // the excess: zeros (invisible to the modular checksum), a checksum-neutral word pair, or random bytes
    let k = 4 * (1 + rng.below(seg as u64 / 4)) as usize;
    let excess: Vec<u8> = match rng.below(3) {
        0 => vec![0u8; k],
        1 => {
            let mut v = vec![];
            while v.len() < k {
                v.extend([0, 0, 0, 1, 0xFF, 0xFF, 0xFF, 0xFF]);
            }
            v.truncate(k - k % 8);
            if v.is_empty() {
                v = vec![0, 0, 0, 1, 0xFF, 0xFF, 0xFF, 0xFF];
            }
            v
        }
        _ => rng.bytes(k),
    };
    #[derive(Clone)]
    enum It {
        D(u64),
        E,
        X,
    }
    // a subset of the in-range segments first, then EOF / excess / the rest in a drawn order
    let mut first: Vec<It> = vec![];
    let mut rest: Vec<It> = vec![];
    for i in 0..nsegs {
        if rng.chance(1, 2) {
            first.push(It::D(i));
        } else {
            rest.push(It::D(i));
        }
    }
    let mut tail: Vec<It> = match rng.below(4) {
        0 => vec![It::X, It::E],
        1 => vec![It::E, It::X],
        2 => vec![It::E],
        _ => vec![It::X],
    };
    let eof_in_tail = tail.iter().any(|x| matches!(x, It::E));
    let x_in_tail = tail.iter().any(|x| matches!(x, It::X));
    tail.extend(rest);
    if !x_in_tail {
        tail.insert(rng.below(tail.len() as u64 + 1) as usize, It::X);
    }
    if !eof_in_tail {
        tail.insert(rng.below(tail.len() as u64 + 1) as usize, It::E);
    }
    let mut t = 10u64;
    let inject = |sc: &mut Scenario, t: u64, bytes: Vec<u8>| {
        sc.actions.push(Action { trigger: Trigger::AtMs(t), entity: 0, kind: ActionKind::Inject { to: 1, as_from: 0, bytes } });
    };
    let closure = cfg_closure(&sc);
    inject(&mut sc, t, pup.metadata(size, "src.bin", "dst.bin", closure, null, vec![]));
    for it in first.into_iter().chain(tail) {
        t += 20;
        let bytes = match it {
            It::D(i) => pup.data(i * seg as u64, &content[(i * seg as u64) as usize..((i + 1) * seg as u64) as usize]),
            It::E => pup.eof(cfdp_core::pdu::Condition::NoError, if null { 0 } else { modular(&content) }, size),
            It::X => pup.data(size, &excess),
        };
        inject(&mut sc, t, bytes);
    }
    // the sender acknowledges whatever Finished PDU comes
    inject(&mut sc, t + 400, pup.ack_finished(cfdp_core::pdu::Condition::NoError));
    sc.horizon_ms = 40_000;
    C01Case { sc }
}

fn cfg_closure(sc: &Scenario) -> bool {
    sc.entities[1].cfg.closure
}

pub fn run(ctx: &mut Ctx) {
    ctx.rule = "proptest scenarios: one Put between two real daemons; segment size in {16,24,32,64,1024}, file size in {0,1,seg-1,seg,seg+1,2seg,3seg-1,3seg+1,4seg,5seg+3,8seg,12seg}, \
content in {random, zero, zero runs aligned to segments, checksum-neutral word pairs, zero tail}, both modes, closure, Modular/Null checksum, CRC, 6 NAK procedures (independent \
for the receiver), limits 1..4, timeouts 1..5 s, id widths 1/2/4/8, serialisation delay 0/1/10 ms, latency 0..5 ms, 0..5 faults over the first 30 datagrams of either direction \
(drop, duplicate, delay, single-bit corruption only with the CRC on), tokio scheduler seed; two exhaustive families: one lost datagram at every position under weak checksums, and - without CRC, modular checksum - one flipped bit in the file data of each segment; and a puppet-sender family in which a File Data PDU beyond the announced file size (zeros, checksum-neutral or random bytes) arrives before the EOF, between EOF and the rest of the data, or last; and a family in which the source file is rewritten in place after the k-th datagram of the sender (every k, with and without a loss). Non-trivial = a fault hit a datagram and the file has >= 2 segments, or the content/checksum \
is weak (null checksum, neutral, zero runs, zero tail) and some data byte never reached the receiver, or data beyond the announced size reached the receiver; distinct by the whole scenario."
        .into();
    ctx.assumptions = vec![
        "bit corruption is injected only when the CRC option is on (without it CFDP has no protection against payload corruption of metadata/EOF)".into(),
        "the source file changes during the transfer only in the family made for it (rewritten in place, same length); the file compared with is the content at the time of the Put request".into(),
    ];
    let part = C01Part;
    ctx.run_known_replays(&part);
    let n = ctx.tier.pick(60_000u64, 3_000_000);
    ctx.section = "both-modes".into();
    ctx.drive_proptest(&part, scenario_strategy(Modes::Both, 5).prop_map(|sc| C01Case { sc }), n, 300);
    // a focused family: unacknowledged / weak checksum / exactly one lost data segment at every position
    let mut cases = vec![];
    for null in [false, true] {
        for class in [ContentClass::Neutral, ContentClass::ZeroRuns { seg: 16 }, ContentClass::ZeroTail { n: 40 }, ContentClass::Random] {
            for unack in [true, false] {
                for closure in [false, true] {
                    for nsegs in [2u32, 3, 5] {
                        for lost in 0..=nsegs + 1 {
                            let cfg = CfgSpec {
                                seg: 16,
                                null_checksum: null,
                                closure,
                                ..CfgSpec::default()
                            };
                            let mut sc = Scenario::two_entities(cfg.clone(), cfg.clone());
                            sc.seed = ctx.seed;
                            sc.puts.push(simple_put(16 * nsegs, class.clone(), 77 + lost as u64, unack));
                            sc.faults.push(Fault { from: 0, to: 1, ordinal: lost, kind: FaultKind::Drop });
                            sc.horizon_ms = generous_horizon(&[&cfg]);
                            cases.push(C01Case { sc });
                        }
                    }
                }
            }
        }
    }
    ctx.section = "one-loss-weak-checksum".into();
    ctx.drive_list(&part, cases, true);
    // no CRC on the link, modular file checksum: one bit of one data segment's file data arrives flipped (every segment,
    // several bit positions) - only the file checksum can notice, and nobody may then report a complete delivery
    let mut cases = vec![];
    for class in [ContentClass::Random, ContentClass::Zero, ContentClass::Neutral] {
        for unack in [true, false] {
            for closure in [false, true] {
                for nsegs in [1u32, 2, 4] {
                    for hit in 1..=nsegs {
                        for frac in [0u16, 9000, 33000, 65535] {
                            let cfg = CfgSpec { seg: 16, null_checksum: false, crc: false, closure, ..CfgSpec::default() };
                            let mut sc = Scenario::two_entities(cfg.clone(), cfg.clone());
                            sc.seed = ctx.seed ^ frac as u64;
                            sc.puts.push(simple_put(16 * nsegs - (frac as u32 % 3), class.clone(), 91 + hit as u64, unack));
                            sc.faults.push(Fault { from: 0, to: 1, ordinal: hit, kind: FaultKind::CorruptData { frac } });
                            sc.horizon_ms = generous_horizon(&[&cfg]);
                            cases.push(C01Case { sc });
                        }
                    }
                }
            }
        }
    }
    ctx.section = "one-flipped-data-bit-no-crc".into();
    ctx.drive_list(&part, cases, true);
    // the source file is rewritten in place (same length, every byte changed) while the transfer runs, after the k-th datagram
    // of the sender: what the statement calls "the source file as it was when the transfer was requested" is the old content;
    // a mixture or the new content may be delivered only as a failure. Modular checksum (the null checksum cannot notice).
    let mut cases = vec![];
    for unack in [false, true] {
        for closure in [false, true] {
            for nak_immediate in [false, true] {
                for nsegs in [2u32, 4, 7] {
                    for k in 1..=nsegs + 1 {
                        for lost in [None, Some(1u32), Some(nsegs)] {
                            let cfg = CfgSpec { seg: 16, null_checksum: false, closure, nak: NakSpec { immediate: nak_immediate, delay_ms: 0 }, ..CfgSpec::default() };
                            let mut sc = Scenario::two_entities(cfg.clone(), cfg.clone());
                            sc.seed = ctx.seed ^ (k as u64) << 8;
                            sc.puts.push(simple_put(16 * nsegs - 3, ContentClass::Random, 5 + k as u64, unack));
                            sc.actions.push(Action { trigger: Trigger::OnOrdinal { from: 0, to: 1, ordinal: k, delay_ms: 0 }, entity: 0, kind: ActionKind::RewriteSource { put: 0 } });
                            if let Some(l) = lost {
                                sc.faults.push(Fault { from: 0, to: 1, ordinal: l, kind: FaultKind::Drop });
                            }
                            sc.horizon_ms = generous_horizon(&[&cfg]);
                            cases.push(C01Case { sc });
                        }
                    }
                }
            }
        }
    }
    ctx.section = "source-rewritten-during-transfer".into();
    ctx.drive_list(&part, cases, true);
    let seed = ctx.seed;
    let n = ctx.tier.pick(8_000u64, 300_000);
    ctx.section = "puppet-data-beyond-announced-size".into();
    ctx.drive_indexed(&part, n, false, |i| puppet_oversize(mix(seed ^ 0xC01E, i)));
    ctx.section.clear();
}
