//! C17 — limit faults fire after exactly the configured expirations; the configured handler runs.
//!
//! Engine E3 (puppet peers give exact control over what is answered and when). Families:
//!  S-ack   real sender, puppet never acknowledges the EOF             -> PositiveLimitReached at the sender
//!  S-inact real sender, puppet acknowledges the EOF, then answers k times with a keep-alive
//!          shortly before an inactivity period ends, then falls silent -> InactivityDetected at the sender
//!  R-ack   real receiver gets a whole file, puppet never acknowledges Finished -> PositiveLimitReached
//!  R-nak   real receiver misses data, puppet answers k NAK rounds with one segment each shortly
//!          before the next round, then falls silent                    -> NakLimitReached
//!  R-inact real receiver gets metadata and some data, then (after k late segments) silence -> InactivityDetected
//!  S-ack-susp / R-ack-susp  as S-ack / R-ack, and the user suspends the waiting transaction after j periods + a fraction
//!          and resumes it 0.4 .. 5.1 periods later: suspended time must not count, every expiry still retransmits
//!  R-cksum / R-size  puppet sends a wrong checksum / data beyond the EOF size -> FileChecksumFailure / FilesizeError
//! over a grid of timeouts {1,2,3} s, limits {1..4} and handlers {absent, cancel, ignore, suspend, abandon}.
//! Oracle (timestamp arithmetic on the trace): the first limit fault comes L * T after the event that
//! (re)started the count — never earlier — with exactly one retransmission (EOF / Finished / NAK round)
//! per earlier expiry; then the configured action: abandon = Abandon indication, nothing more on the link,
//! gone at once; cancel/absent = the cancel PDU (EOF resp. Finished with the fault condition) goes out;
//! ignore = no cancel PDU, no abandon, still alive; suspend = Suspended indication, then silence.

use super::simutil::*;
use crate::common::*;
use crate::puppet::{modular, Pup};
use crate::sim::*;
use cfdp_core::daemon::Indication;
use cfdp_core::pdu::{Condition, FileStatusCode, Operations, PDUPayload};
use serde::{Deserialize, Serialize};

#[derive(Clone, Debug, Serialize, Deserialize)]
pub struct C17Case {
    pub sc: Scenario,
    /// S-ack | S-inact | R-ack | R-nak | R-inact | R-cksum | R-size
    pub family: String,
    /// handler configured for the expected condition: -1 absent, 0 cancel, 1 suspend, 2 ignore, 3 abandon
    pub handler: i8,
    /// number of "answers just before the expiry"
    pub answers: u32,
}

fn fail(tr: &Trace, key: &str, msg: String) -> Fail {
    Fail {
        key: key.to_string(),
        msg: format!("{msg}\n{}", tr.render(260)),
    }
}

fn cond_code(c: Condition) -> u8 {
    c as u8
}

pub fn check_limits(case: &C17Case, tr: &Trace) -> Result<Vec<&'static str>, Fail> {
    let sc = &case.sc;
    let id = sc.put_id(0);
    let real = if case.family.starts_with('S') { 0usize } else { 1usize };
    let peer = 1 - real;
    let cfg = &sc.entities[real].cfg;
    let l = cfg.max_count as u64;
    let tau = sc.tau_ms;
    let eps = 3 * tau + 6;
    let mut labels = vec![];
    // "-hsr": the base family with handler Suspend for its limit fault, and a user Resume 700 ms after the transaction suspended itself
    let hsr = case.family.ends_with("-hsr");
    let base_family = case.family.trim_end_matches("-hsr");
    let (expected_cond, period_ms) = match base_family {
        "S-ack" | "R-ack" | "S-ack-susp" | "R-ack-susp" => (Condition::PositiveLimitReached, cfg.ta as u64 * 1000),
        "S-inact" | "R-inact" => (Condition::InactivityDetected, cfg.ti as u64 * 1000),
        "R-nak" => (Condition::NakLimitReached, cfg.tn as u64 * 1000),
        "R-cksum" => (Condition::FileChecksumFailure, 0),
        _ => (Condition::FilesizeError, 0),
    };
    let faults: Vec<(u64, Condition)> = tr
        .inds_of(real, id)
        .iter()
        .filter_map(|r| match &r.ind {
            Indication::Fault(f) => Some((r.t, f.condition)),
            _ => None,
        })
        .collect();
    let Some((t_fault, cond)) = faults.first().cloned() else {
        return Err(fail(tr, &format!("no-fault:{}", case.family), format!("family {}: no fault was ever declared at entity {real}", case.family)));
    };
    if cond != expected_cond {
        return Err(fail(
            tr,
            &format!("wrong-first-fault:{}:{cond:?}", case.family),
            format!("family {}: the first fault is {cond:?} at {t_fault} ms, expected {expected_cond:?}", case.family),
        ));
    }
    // ---- when
    let emitted = tr.emitted(real, peer);
    // (the cancel PDU that follows the fault - an EOF / Finished carrying the fault's condition - is not a retransmission; with
    // tau = 0 it reaches the link in the millisecond of the fault)
    let carries_fault_cond = |d: &Dgram| match d.pdu.as_ref().map(|x| &x.payload) {
        Some(PDUPayload::Directive(Operations::EoF(e))) => e.condition == expected_cond,
        Some(PDUPayload::Directive(Operations::Finished(f))) => f.condition == expected_cond,
        _ => false,
    };
    let times_of = |k: Kind| -> Vec<u64> { emitted.iter().filter(|d| kind_of(&d.pdu) == k && d.t <= t_fault + eps && !carries_fault_cond(d)).map(|d| d.t).collect() };
    // a PDU counts as sent before the fault when it reached the link no later than the fault indication; with tau = 0 a PDU
    // on the link in the very millisecond of the fault is what the transaction did *after* declaring it (handler Ignore: it carries on)
    let before_fault = |t: u64| t + (1 - tau.min(1)) <= t_fault;
    let last_delivery_before = |t: u64| tr.deliveries.iter().filter(|d| d.1 == real && d.0 <= t).map(|d| d.0).max();
    match base_family {
        "S-ack" | "R-ack" => {
            let k = if real == 0 { Kind::Eof } else { Kind::Finished };
            let tx: Vec<u64> = times_of(k).into_iter().filter(|t| before_fault(*t)).collect();
            if tx.len() as u64 != l {
                return Err(fail(
                    tr,
                    &format!("retransmissions-before-fault:{}", case.family),
                    format!("limit {l}: expected exactly {l} transmissions of the {k:?} PDU before the fault at {t_fault} ms, saw {} at {tx:?}", tx.len()),
                ));
            }
            for w in tx.windows(2) {
                if (w[1] as i64 - w[0] as i64 - period_ms as i64).unsigned_abs() > eps {
                    return Err(fail(tr, &format!("retransmission-spacing:{}", case.family), format!("{k:?} transmissions at {tx:?}: not one per {period_ms} ms")));
                }
            }
            // the first transmission reached the link up to 2 tau after the timer was started
            let want = tx[0] + l * period_ms;
            if t_fault + eps < want.saturating_sub(2 * tau) {
                return Err(fail(tr, &format!("fault-too-early:{}", case.family), format!("first {k:?} at {} ms, timeout {period_ms} ms x limit {l}: fault already at {t_fault} ms", tx[0])));
            }
            if t_fault > want + eps {
                return Err(fail(tr, &format!("fault-too-late:{}", case.family), format!("first {k:?} at {} ms, timeout {period_ms} ms x limit {l}: fault only at {t_fault} ms", tx[0])));
            }
        }
        "S-ack-susp" | "R-ack-susp" => {
            // the user suspends the transaction while it waits for the acknowledgement and resumes it later: the time spent
            // suspended must not count. With u(a,b) = un-suspended time between a and b: the fault comes no earlier than
            // u = L x T after the first transmission, every expiry before it retransmitted (consecutive transmissions, and the
            // last one and the fault, are T..2T of un-suspended time apart: a resume starts a fresh period), at least L transmissions.
            let k = if real == 0 { Kind::Eof } else { Kind::Finished };
            let tx: Vec<u64> = times_of(k).into_iter().filter(|t| before_fault(*t)).collect();
            let t_s = tr.cmds.iter().find(|c| c.1 == real && c.2.starts_with("Suspend")).map(|c| c.0);
            let t_r = tr.cmds.iter().find(|c| c.1 == real && c.2.starts_with("Resume")).map(|c| c.0);
            let (Some(t_s), Some(t_r)) = (t_s, t_r) else {
                return Err(fail(tr, "harness:no-suspend", "the suspend/resume script did not run".into()));
            };
            let unsusp = |a: u64, b: u64| -> u64 {
                let ov = b.min(t_r).saturating_sub(a.max(t_s));
                (b - a) - ov.min(b - a)
            };
            if tx.is_empty() {
                return Err(fail(tr, &format!("retransmissions-before-fault:{}", case.family), format!("no {k:?} PDU before the fault")));
            }
            if t_s < t_fault {
                labels.push("suspended-before-fault");
            }
            let u = unsusp(tx[0], t_fault);
            if u + eps + 2 * tau < l * period_ms {
                return Err(fail(
                    tr,
                    &format!("fault-too-early:{}", case.family),
                    format!("first {k:?} at {} ms, suspended {t_s}..{t_r} ms, fault at {t_fault} ms: only {u} ms of un-suspended time, limit {l} x {period_ms} ms", tx[0]),
                ));
            }
            if (tx.len() as u64) < l {
                return Err(fail(
                    tr,
                    &format!("retransmissions-before-fault:{}", case.family),
                    format!("limit {l}: only {} transmission(s) of the {k:?} PDU at {tx:?} before the fault at {t_fault} ms (suspended {t_s}..{t_r})", tx.len()),
                ));
            }
            let mut marks = tx.clone();
            marks.push(t_fault);
            for w in marks.windows(2) {
                let g = unsusp(w[0], w[1]);
                if g + eps < period_ms || g > 2 * period_ms + eps {
                    return Err(fail(
                        tr,
                        &format!("retransmission-spacing:{}", case.family),
                        format!("{k:?} transmissions at {tx:?}, fault at {t_fault}, suspended {t_s}..{t_r}: {g} ms of un-suspended time between {} and {} (timeout {period_ms} ms)", w[0], w[1]),
                    ));
                }
            }
        }
        "S-inact" | "R-inact" => {
            let t_last = last_delivery_before(t_fault).unwrap_or(0);
            let want = t_last + l * period_ms;
            if t_fault + eps < want {
                return Err(fail(
                    tr,
                    &format!("fault-too-early:{}", case.family),
                    format!("last PDU delivered at {t_last} ms, inactivity timeout {period_ms} ms x limit {l}: fault already at {t_fault} ms ({} answer(s) had reset the count)", case.answers),
                ));
            }
            if t_fault > want + eps {
                return Err(fail(tr, &format!("fault-too-late:{}", case.family), format!("last PDU delivered at {t_last} ms, {period_ms} ms x {l}: fault only at {t_fault} ms")));
            }
        }
        "R-nak" => {
            // NAK rounds since the last new data: L of them, one period apart, the fault one period after the last
            let t_last_data = tr
                .deliveries
                .iter()
                .filter(|d| d.1 == real && d.0 <= t_fault && kind_of(&tr.dgrams[d.2].pdu) == Kind::FileData)
                .map(|d| d.0)
                .max()
                .unwrap_or(0);
            let naks: Vec<u64> = times_of(Kind::Nak).into_iter().filter(|t| *t > t_last_data && before_fault(*t)).collect();
            // group PDUs of one round
            let mut rounds: Vec<u64> = vec![];
            for t in naks {
                if rounds.last().map(|r| t > r + 40).unwrap_or(true) {
                    rounds.push(t);
                }
            }
            // the round sent right after the last answer restarts the count: L rounds follow the data
            if (rounds.len() as u64) < l {
                return Err(fail(
                    tr,
                    "fault-too-early:R-nak",
                    format!("limit {l}: only {} NAK round(s) {rounds:?} went unanswered after the last data at {t_last_data} ms before the fault at {t_fault} ms", rounds.len()),
                ));
            }
            if rounds.len() as u64 > l + 1 {
                return Err(fail(tr, "fault-too-late:R-nak", format!("limit {l}: {} unanswered NAK rounds {rounds:?} before the fault at {t_fault} ms", rounds.len())));
            }
            for w in rounds.windows(2) {
                if w[1] + eps < w[0] + period_ms {
                    return Err(fail(tr, "nak-rounds-too-close", format!("NAK rounds {rounds:?}: closer than the NAK timeout {period_ms} ms")));
                }
            }
            if let Some(last) = rounds.last() {
                if t_fault + eps < last + period_ms {
                    return Err(fail(tr, "fault-too-early:R-nak", format!("last NAK round at {last} ms, fault already at {t_fault} ms (timeout {period_ms} ms)")));
                }
            }
        }
        _ => {}
    }
    labels.push("limit-fault-declared");
    // ---- the configured action
    let action = cfg.handlers.iter().find(|(c, _)| *c == cond_code(cond)).map(|x| x.1);
    let after: Vec<&&Dgram> = emitted.iter().filter(|d| d.t > t_fault + 2 * tau + 2).collect();
    let cancel_kind = if real == 0 { Kind::Eof } else { Kind::Finished };
    let cancel_pdu = emitted.iter().any(|d| {
        d.t + 1 >= t_fault
            && match d.pdu.as_ref().map(|x| &x.payload) {
                Some(PDUPayload::Directive(Operations::EoF(e))) => real == 0 && e.condition == cond,
                Some(PDUPayload::Directive(Operations::Finished(f))) => real == 1 && f.condition == cond,
                _ => false,
            }
    });
    let abandon_ind = tr.inds_of(real, id).iter().any(|r| matches!(&r.ind, Indication::Abandon(_)) && r.t + 1 >= t_fault && r.t <= t_fault + eps);
    let suspended_ind = tr.inds_of(real, id).iter().any(|r| matches!(&r.ind, Indication::Suspended(_)) && r.t + 1 >= t_fault && r.t <= t_fault + eps);
    let term = tr.terminated_at(real, id);
    match action {
        Some(3) => {
            if !abandon_ind {
                return Err(fail(tr, "handler-abandon:no-abandon-indication", format!("{cond:?} at {t_fault} ms with handler Abandon: no Abandon indication")));
            }
            if let Some(d) = after.first() {
                return Err(fail(tr, "handler-abandon:pdu-after-abandon", format!("{cond:?} at {t_fault} ms with handler Abandon, but a {:?} PDU went out at {} ms", kind_of(&d.pdu), d.t)));
            }
            if term.map(|t| t > t_fault + eps).unwrap_or(true) || tr.alive_at_end(real, id) {
                return Err(fail(tr, "handler-abandon:not-gone", format!("{cond:?} at {t_fault} ms with handler Abandon: transaction ended at {term:?}")));
            }
            labels.push("handler-abandon");
        }
        Some(2) => {
            // for the integrity faults the receiver carries on and its regular Finished PDU names the condition: only the
            // timer faults have a distinguishable cancel PDU
            let timer_fault = period_ms > 0;
            if cancel_pdu && timer_fault {
                return Err(fail(tr, "handler-ignore:cancelled", format!("{cond:?} at {t_fault} ms with handler Ignore, but the cancel PDU ({cancel_kind:?} with that condition) went out")));
            }
            let abandoned_any = tr.inds_of(real, id).iter().any(|r| matches!(&r.ind, Indication::Abandon(f) if f.condition == cond));
            if abandoned_any {
                return Err(fail(tr, "handler-ignore:abandoned", format!("{cond:?} with handler Ignore, but the transaction was abandoned with that condition")));
            }
            if suspended_ind {
                return Err(fail(tr, "handler-ignore:suspended", format!("{cond:?} with handler Ignore, but the transaction suspended itself")));
            }
            if term.map(|t| t <= t_fault + eps).unwrap_or(false) {
                return Err(fail(tr, "handler-ignore:ended", format!("{cond:?} at {t_fault} ms with handler Ignore, but the transaction ended at {term:?}")));
            }
            labels.push("handler-ignore");
        }
        Some(1) => {
            if !suspended_ind {
                return Err(fail(tr, "handler-suspend:no-suspended-indication", format!("{cond:?} at {t_fault} ms with handler Suspend: no Suspended indication")));
            }
            if cancel_pdu {
                return Err(fail(tr, "handler-suspend:cancelled", format!("{cond:?} with handler Suspend, but the cancel PDU went out")));
            }
            let t_resume = tr.cmds.iter().find(|c| c.1 == real && c.2.starts_with("Resume")).map(|c| c.0);
            for d in after.iter().filter(|d| t_resume.map(|tr_| d.t < tr_).unwrap_or(true)) {
                let k = kind_of(&d.pdu);
                if matches!(k, Kind::Metadata | Kind::FileData | Kind::Eof | Kind::Nak | Kind::Finished) {
                    return Err(fail(tr, "handler-suspend:emits", format!("{cond:?} at {t_fault} ms with handler Suspend, but a {k:?} PDU went out at {} ms", d.t)));
                }
            }
            if !hsr && !tr.alive_at_end(real, id) {
                return Err(fail(tr, "handler-suspend:ended", format!("{cond:?} with handler Suspend: the transaction is gone at the end (terminated {term:?})")));
            }
            labels.push("handler-suspend");
            if hsr {
                // the user resumes: the peer is as silent as before, so the limit is reached again - but only after another
                // L unanswered expirations counted from the resume, each with its retransmission
                let Some(t_res) = t_resume else {
                    return Err(fail(tr, "harness:no-resume", "the resume script did not run".into()));
                };
                let second = faults.iter().find(|(t, c)| *t > t_res && *c == expected_cond).map(|x| x.0);
                let Some(t2) = second else {
                    return Err(fail(
                        tr,
                        &format!("no-second-fault-after-resume:{}", case.family),
                        format!("resumed at {t_res} ms with the peer still silent: {expected_cond:?} was never declared again"),
                    ));
                };
                if t2 + eps + 2 * tau < t_res + l * period_ms {
                    return Err(fail(
                        tr,
                        &format!("fault-too-early-after-resume:{}", case.family),
                        format!("resumed at {t_res} ms, limit {l} x {period_ms} ms: {expected_cond:?} declared again already at {t2} ms"),
                    ));
                }
                let k = match base_family {
                    "R-nak" => Kind::Nak,
                    "S-ack" => Kind::Eof,
                    _ => Kind::Finished,
                };
                let n = emitted.iter().filter(|d| kind_of(&d.pdu) == k && d.t > t_res && d.t < t2 && !carries_fault_cond(d)).count() as u64;
                if n + 1 < l {
                    return Err(fail(
                        tr,
                        &format!("retransmissions-after-resume:{}", case.family),
                        format!("between the resume at {t_res} ms and the second fault at {t2} ms only {n} {k:?} PDU(s) went out, limit {l}"),
                    ));
                }
                labels.push("second-fault-after-resume");
            }
        }
        _ => {
            // cancel (configured or default)
            if !cancel_pdu {
                return Err(fail(
                    tr,
                    "handler-cancel:no-cancel-pdu",
                    format!("{cond:?} at {t_fault} ms with handler {action:?} (cancel): no {cancel_kind:?} PDU carrying that condition went out"),
                ));
            }
            if suspended_ind {
                return Err(fail(tr, "handler-cancel:suspended", format!("{cond:?} with handler cancel, but the transaction suspended itself")));
            }
            labels.push(if action.is_some() { "handler-cancel" } else { "handler-default" });
        }
    }
    Ok(labels)
}

pub struct C17Part;
impl Part for C17Part {
    type Case = C17Case;
    fn name(&self) -> &'static str {
        "limits"
    }
    fn run(&self, case: &C17Case) -> CaseOut {
        let sc = &case.sc;
        let tr = run_scenario(sc);
        let mut out = CaseOut::ok();
        out.classes.push(match case.family.as_str() {
            "S-ack" => "S-ack",
            "S-inact" => "S-inact",
            "R-ack" => "R-ack",
            "R-nak" => "R-nak",
            "R-inact" => "R-inact",
            "R-cksum" => "R-cksum",
            "S-ack-susp" => "S-ack-susp",
            "S-ack-hsr" => "S-ack-hsr",
            "R-ack-hsr" => "R-ack-hsr",
            "R-nak-hsr" => "R-nak-hsr",
            "R-ack-susp" => "R-ack-susp",
            _ => "R-size",
        });
        out = out.class_if(case.answers > 0, "answers-before-expiry");
        if let Some(f) = common_failures(sc, &tr) {
            return out.failed(f.key, f.msg);
        }
        match check_limits(case, &tr) {
            Ok(labels) => {
                out = out.nt(hash_json(case));
                for l in labels {
                    out.classes.push(l);
                }
                out
            }
            Err(f) => out.failed(f.key, f.msg),
        }
    }
}

#[allow(clippy::too_many_arguments)]
pub fn build(family: &str, ta: i64, tn: i64, ti: i64, l: u32, handler: i8, answers: u32, seed: u64, immediate: bool) -> C17Case {
    let hsr = family.ends_with("-hsr");
    let family = family.trim_end_matches("-hsr");
    let cond = match family {
        "S-ack" | "R-ack" | "S-ack-susp" | "R-ack-susp" => Condition::PositiveLimitReached,
        "S-inact" | "R-inact" => Condition::InactivityDetected,
        "R-nak" => Condition::NakLimitReached,
        "R-cksum" => Condition::FileChecksumFailure,
        _ => Condition::FilesizeError,
    };
    let handlers = if handler < 0 { vec![] } else { vec![(cond_code(cond), handler as u8)] };
    let cfg = CfgSpec {
        seg: 32,
        max_count: l,
        ti,
        ta,
        tn,
        crc: seed % 3 == 0,
        closure: false,
        null_checksum: false,
        nak: NakSpec { immediate, delay_ms: 0 },
        handlers,
    };
    let mut sc = Scenario::two_entities(cfg.clone(), cfg.clone());
    sc.seed = seed;
    sc.stop_when_quiet = true;
    let real = if family.starts_with('S') { 0 } else { 1 };
    sc.entities[1 - real].present = false;
    let size: u32 = 100;
    sc.puts.push(simple_put(size, ContentClass::Random, seed ^ 0xC17, false));
    let content = sc.puts[0].file.as_ref().unwrap().bytes();
    let pup = Pup::for_put(&sc, 0);
    let inject = |sc: &mut Scenario, trigger: Trigger, bytes: Vec<u8>| {
        sc.actions.push(Action { trigger, entity: 1 - real, kind: ActionKind::Inject { to: real, as_from: 1 - real, bytes } });
    };
    let seg = 32usize;
    let data = |i: usize| pup.data((i * seg) as u64, &content[i * seg..std::cmp::min(content.len(), (i + 1) * seg)]);
    let nseg = content.len().div_ceil(seg);
    let worst = (ti.max(ta).max(tn) as u64) * 1000;
    match family {
        "S-ack" => {
            // the puppet never answers
        }
        "S-ack-susp" | "R-ack-susp" => {
            // as S-ack / R-ack, and the user suspends after j whole periods + a fraction and resumes after a while
            // (`answers` selects the variant)
            let t_first = if real == 0 {
                0u64
            } else {
                inject(&mut sc, Trigger::AtMs(10), pup.metadata(size as u64, "src.bin", "dst.bin", false, false, vec![]));
                for i in 0..nseg {
                    inject(&mut sc, Trigger::AtMs(20 + 10 * i as u64), data(i));
                }
                inject(&mut sc, Trigger::AtMs(100), pup.eof(Condition::NoError, modular(&content), size as u64));
                100
            };
            let period = ta as u64 * 1000;
            let j = (answers as u64) % (l as u64);
            let frac = [300u64, 700, 950, 50][(answers as usize / 4) % 4];
            let dur = [400u64, 2300, 1000, 5100][(answers as usize) % 4] * period / 1000;
            let at = t_first + j * period + frac * period / 1000;
            sc.actions.push(Action { trigger: Trigger::AtMs(at), entity: real, kind: ActionKind::Suspend { put: 0 } });
            sc.actions.push(Action { trigger: Trigger::AtMs(at + dur), entity: real, kind: ActionKind::Resume { put: 0 } });
        }
        "S-inact" => {
            // acknowledge the EOF, then `answers` keep-alives, each 1 ms before 1.5 inactivity periods would have passed... i.e. after
            // one expiry but long before the limit; then silence
            inject(&mut sc, Trigger::OnIndication { entity: 0, put: 0, kind: "eof-sent".into(), delay_ms: 20 }, pup.ack_eof(Condition::NoError));
            for k in 0..answers {
                let t = 20 + (k as u64 + 1) * (ti as u64 * 1500);
                // the answer is a keep-alive, or (flag `immediate`, meaningless for a sender otherwise) a NAK for the first segment:
                // any PDU from the peer is a sign of life and resets the count
                let answer = if immediate { pup.nak(0, 32, &[(0, 32)]) } else { pup.keepalive(10) };
                inject(&mut sc, Trigger::OnIndication { entity: 0, put: 0, kind: "eof-sent".into(), delay_ms: t }, answer);
            }
        }
        "R-ack" => {
            inject(&mut sc, Trigger::AtMs(10), pup.metadata(size as u64, "src.bin", "dst.bin", false, false, vec![]));
            for i in 0..nseg {
                inject(&mut sc, Trigger::AtMs(20 + 10 * i as u64), data(i));
            }
            inject(&mut sc, Trigger::AtMs(100), pup.eof(Condition::NoError, modular(&content), size as u64));
        }
        "R-nak" => {
            inject(&mut sc, Trigger::AtMs(10), pup.metadata(size as u64, "src.bin", "dst.bin", false, false, vec![]));
            // segment 0 delivered, the others withheld; `answers` of them are delivered later, each 100 ms before the next NAK round
            inject(&mut sc, Trigger::AtMs(20), data(0));
            inject(&mut sc, Trigger::AtMs(100), pup.eof(Condition::NoError, modular(&content), size as u64));
            for k in 0..std::cmp::min(answers as usize, nseg - 2) {
                let t = 100 + (k as u64 + 1) * (tn as u64 * 1000) - 100;
                inject(&mut sc, Trigger::AtMs(t), data(k + 1));
            }
        }
        "R-inact" => {
            inject(&mut sc, Trigger::AtMs(10), pup.metadata(size as u64, "src.bin", "dst.bin", false, false, vec![]));
            inject(&mut sc, Trigger::AtMs(20), data(0));
            // late segments, each 1 ms before an inactivity period ends (progress resets the count)
            for k in 0..std::cmp::min(answers as usize, nseg - 1) {
                let t = 20 + (k as u64 + 1) * (ti as u64 * 1000 - 1);
                inject(&mut sc, Trigger::AtMs(t), data(k + 1));
            }
        }
        "R-cksum" => {
            inject(&mut sc, Trigger::AtMs(10), pup.metadata(size as u64, "src.bin", "dst.bin", false, false, vec![]));
            for i in 0..nseg {
                inject(&mut sc, Trigger::AtMs(20 + 10 * i as u64), data(i));
            }
            inject(&mut sc, Trigger::AtMs(100), pup.eof(Condition::NoError, modular(&content) ^ 0x55, size as u64));
        }
        _ => {
            // data beyond the size announced in the EOF
            inject(&mut sc, Trigger::AtMs(10), pup.metadata(size as u64, "src.bin", "dst.bin", false, false, vec![]));
            for i in 0..nseg {
                inject(&mut sc, Trigger::AtMs(20 + 10 * i as u64), data(i));
            }
            inject(&mut sc, Trigger::AtMs(100), pup.eof(Condition::NoError, modular(&content[..64]), 64));
        }
    }
    if hsr {
        sc.actions.push(Action {
            trigger: Trigger::OnIndication { entity: real, put: 0, kind: "suspended".into(), delay_ms: 700 },
            entity: real,
            kind: ActionKind::Resume { put: 0 },
        });
    }
    let _ = FileStatusCode::Retained;
    sc.horizon_ms = 2000 + (l as u64 + answers as u64 + 3) * worst * 2 + if family.ends_with("-susp") { 8 * worst } else { 0 };
    if hsr {
        sc.horizon_ms += (l as u64 + 3) * worst * 2;
    }
    C17Case {
        sc,
        family: if hsr { format!("{family}-hsr") } else { family.to_string() },
        handler,
        answers,
    }
}

pub fn run(ctx: &mut Ctx) {
    ctx.rule = "7 families (sender ack limit, sender inactivity, receiver ack limit, receiver NAK limit, receiver inactivity, checksum failure, file-size error) x timeouts (Ta,Tn,Ti) over {1,2,3} s (the timeout \
under test varies over all three values, the others are set apart from it) x limit 1..4 x handler {absent, cancel, suspend, ignore, abandon} x 0..2 answers shortly before an expiry (keep-alive / late segment / partial \
retransmission) x deferred/immediate NAK; exhaustive over this grid, repeated under other link timings (tau, latency) in {(0,0),(5,3)} (quick, half of the grid each) / {(0,0),(0,4),(2,0),(5,3),(10,5)} (thorough). Every case is non-trivial once the expected fault was declared (distinct by case)."
        .into();
    ctx.assumptions = vec![
        "timing tolerance 3 tau + 6 ms; the first transmission of a PDU reaches the link up to 2 tau after its timer was started".into(),
        "with handler Ignore only 'no cancel PDU, no abandon with that condition, not ended at once' is required".into(),
    ];
    let part = C17Part;
    ctx.run_known_replays(&part);
    let mut cases = vec![];
    let mut k = 0u64;
    for family in ["S-ack", "S-inact", "R-ack", "R-nak", "R-inact", "R-cksum", "R-size"] {
        for t in [1i64, 2, 3] {
            for l in 1u32..=4 {
                for handler in [-1i8, 0, 1, 2, 3] {
                    for answers in 0u32..=2 {
                        let timed = !matches!(family, "R-cksum" | "R-size");
                        if !timed && (answers > 0 || t > 1 && l > 1) {
                            continue;
                        }
                        if matches!(family, "S-ack" | "R-ack") && answers > 0 {
                            continue;
                        }
                        for immediate in [false, true] {
                            if immediate && !family.starts_with('R') && !(family == "S-inact" && answers > 0) {
                                continue;
                            }
                            // the timeout under test is t; the other two are set apart so that they do not fire first
                            let (ta, tn, ti) = match family {
                                "S-ack" | "R-ack" => (t, t + 1, 4 * (t + 1) * 4),
                                "S-inact" | "R-inact" => (9 * t + 7, 9 * t + 8, t),
                                "R-nak" => (t + 1, t, 40 * t),
                                _ => (2, 2, 30),
                            };
                            k += 1;
                            cases.push(build(family, ta, tn, ti, l, handler, answers, mix(ctx.seed, k), immediate));
                        }
                    }
                }
            }
        }
    }
    // the limit fault is handled by Suspend and the user resumes the transaction 700 ms later
    for family in ["S-ack-hsr", "R-ack-hsr", "R-nak-hsr"] {
        for t in [1i64, 2, 3] {
            for l in 1u32..=4 {
                for immediate in [false, true] {
                    if immediate && family != "R-nak-hsr" {
                        continue;
                    }
                    let (ta, tn, ti) = match family {
                        "R-nak-hsr" => (t + 1, t, 80 * t),
                        _ => (t, t + 1, 80 * (t + 1)),
                    };
                    k += 1;
                    cases.push(build(family, ta, tn, ti, l, 1, 0, mix(ctx.seed, k), immediate));
                }
            }
        }
    }
    for family in ["S-ack-susp", "R-ack-susp"] {
        for t in [1i64, 2, 3] {
            for l in 1u32..=4 {
                for handler in [-1i8, 0, 3] {
                    for variant in 0u32..16 {
                        k += 1;
                        cases.push(build(family, t, t + 1, 40 * (t + 1) * 4, l, handler, variant, mix(ctx.seed, k), false));
                    }
                }
            }
        }
    }
    // link timing variants: serialisation delay tau and latency (the grid above uses tau 1 ms, latency 2 ms)
    // (the third figure is hook H5's poll delay: timer and PDU of one instant found ready together)
    let variants: Vec<(u64, u64, u8)> = ctx.tier.pick(vec![(0, 0, 0), (5, 3, 0), (1, 2, 3)], vec![(0, 0, 0), (0, 4, 0), (2, 0, 0), (5, 3, 0), (10, 5, 0), (1, 2, 3), (0, 0, 4), (1, 0, 2)]);
    let base = cases.clone();
    for (vi, (tau, lat, yields)) in variants.iter().enumerate() {
        for (ci, c) in base.iter().enumerate() {
            // quick: every other case per variant
            if ctx.tier == Tier::Quick && (ci + vi) % 2 == 1 {
                continue;
            }
            let mut c2 = c.clone();
            c2.sc.tau_ms = *tau;
            c2.sc.lat_ms = *lat;
            c2.sc.yields = *yields;
            cases.push(c2);
        }
    }
    ctx.section = "grid".into();
    ctx.drive_list(&part, cases, true);
    ctx.section.clear();
}
